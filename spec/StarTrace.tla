----------------------------- MODULE StarTrace -----------------------------
(***************************************************************************)
(* C02, code -> spec.  One trace = one file written by Starfile.write:     *)
(*   lines     the bytes of the file, split at LF                          *)
(*   numbered  the number_columns argument                                 *)
(*   expect    the tables handed to the writer: per block name, labels,    *)
(*             column types and cells - a numeric cell is the decimal      *)
(*             value as [neg, digits, exp], a text cell its bytes          *)
(*   read      what Starfile.read returned for the same file, projected    *)
(*             the same way                                                *)
(* Numeric cells are compared after rounding to 6 decimals (Star!RoundTo6) *)
(* - the property's "equal after rounding to 6 decimals".                  *)
(* The file is tokenized and parsed here with Star!Parse (independent of   *)
(* the library); the clauses compare the parse with the tables written and *)
(* with the frames read back.  Many traces are validated in one run.       *)
(***************************************************************************)
EXTENDS Star, Json, IOUtils

Traces == ndJsonDeserialize(IOEnv.TRACE_FILE)

VARIABLES tid, done, clause, blk
vars == <<tid, done, clause, blk>>

Names(bs) == [b \in 1..Len(bs) |-> bs[b].name]

\* first block on which two typed block sequences of equal length differ in the given field, 0 if none
FirstDiff(xs, ys, F(_)) == LET D == {b \in 1..Len(xs) : F(xs[b]) # F(ys[b])} IN IF D = {} THEN 0 ELSE SetMin(D)

LabelsOf(b) == b.labels
TypesOf(b) == b.types
RowsOf(b) == b.rows

\* <<name of the first clause the trace breaks or "none", block index>>
Verdict(t) ==
    LET P == Parse(t.lines)
        ty == Round6Blocks(Typed(Core(P.blocks)))
        ex == Round6Blocks(t.expect)
        rd == [ok |-> t.read.ok, blocks |-> Round6Blocks(t.read.blocks)]
        badnum == {b \in 1..Len(P.blocks) : ~SuffixOK(P.blocks[b], t.numbered)}
    IN  IF ~P.ok THEN <<"C02_WrittenTextWellFormed", 0>>
        ELSE IF Names(ty) # Names(ex) THEN <<"C02_BlockNames", 0>>
        ELSE IF FirstDiff(ty, ex, LabelsOf) # 0 THEN <<"C02_Labels", FirstDiff(ty, ex, LabelsOf)>>
        ELSE IF badnum # {} THEN <<"C02_LabelNumbering", SetMin(badnum)>>
        ELSE IF FirstDiff(ty, ex, TypesOf) # 0 THEN <<"C02_WrittenColumnTypes", FirstDiff(ty, ex, TypesOf)>>
        ELSE IF FirstDiff(ty, ex, RowsOf) # 0 THEN <<"C02_WrittenRows", FirstDiff(ty, ex, RowsOf)>>
        ELSE IF ~rd.ok THEN <<"C02_ReadBack", 0>>
        ELSE IF Names(rd.blocks) # Names(ty) THEN <<"C02_ReadBlockNames", 0>>
        ELSE IF FirstDiff(rd.blocks, ty, LabelsOf) # 0 THEN <<"C02_ReadLabels", FirstDiff(rd.blocks, ty, LabelsOf)>>
        ELSE IF FirstDiff(rd.blocks, ty, TypesOf) # 0 THEN <<"C02_ReadColumnTypes", FirstDiff(rd.blocks, ty, TypesOf)>>
        ELSE IF FirstDiff(rd.blocks, ty, RowsOf) # 0 THEN <<"C02_ReadRows", FirstDiff(rd.blocks, ty, RowsOf)>>
        ELSE <<"none", 0>>

TraceInit == /\ tid \in 1..Len(Traces)
             /\ done = FALSE /\ clause = "none" /\ blk = 0

TraceNext == /\ ~done
             /\ LET v == Verdict(Traces[tid]) IN clause' = v[1] /\ blk' = v[2]
             /\ done' = TRUE
             /\ UNCHANGED tid

TraceSpec == TraceInit /\ [][TraceNext]_vars

Report == \/ ~done
          \/ PrintT(<<"VERDICT", ToJson([tid |-> tid, ok |-> clause = "none", clause |-> clause, block |-> blk])>>)
-----------------------------------------------------------------------------
\* plain parsing service (used when a reader case is replayed: what must a reader return for these lines?)
ParseNext == /\ ~done /\ done' = TRUE /\ UNCHANGED <<tid, clause, blk>>
ParseSpec == TraceInit /\ [][ParseNext]_vars
ParseReport == \/ ~done
               \/ LET P == Parse(Traces[tid].lines)
                  IN  PrintT(<<"PARSED", ToJson([tid |-> tid, ok |-> P.ok, expect |-> Typed(Core(P.blocks))])>>)
=============================================================================

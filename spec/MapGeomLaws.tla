---------------------------- MODULE MapGeomLaws ----------------------------
(* C14: constant-level laws of MapGeom.tla over the whole cube group, asserted as ASSUMEs (evaluated once by TLC). *)
EXTENDS MC_MapGeom

ASSUME A_ActiveComposition == C14_LawActiveComposition(5) /\ C14_LawActiveComposition(6)
ASSUME A_InverseRestores == C14_LawInverseRestores(5) /\ C14_LawInverseRestores(6)
ASSUME A_CentreFixed == C14_LawCentreFixed(5) /\ C14_LawCentreFixed(6)
ASSUME A_TemplatesChiral == Chiral(Tmpl8) /\ Chiral(Tmpl6) /\ Chiral(Tmpl8b) /\ Chiral(Tmpl7)
\* the templates of a list really differ after thresholding
ASSUME A_TemplatesDiffer == HiOffsets(Tmpl8) # HiOffsets(Tmpl8b) /\ HiOffsets(Tmpl8) # HiOffsets(Tmpl6) /\ HiOffsets(Tmpl6) # HiOffsets(Tmpl8b)
\* quarter turns about z used by the symmetrisation are the rotations by k * 360/n
ASSUME A_ZTurns == /\ ZTurn(4, 1) = Rz1 /\ ZTurn(2, 1) = Mul(Rz1, Rz1) /\ ZTurn(4, 4) = Id /\ ZTurn(2, 2) = Id
                   /\ \A k \in 1..4 : ZAxis(ZTurn(4, k)) = <<0, 0, 1>>
\* the fractional window rule restricted to integral centres and even shapes is the integral rule
ASSUME A_WStartQExtendsWStart == \A c \in -9..12 : \A S \in {2, 4, 8} : \A u \in {1, 8, 10} :
                                    WStartQ(<<u * c, u * c, u * c>>, <<S, S, S>>, u) = WStart(<<c, c, c>>, <<S, S, S>>)
\* floor, not truncation: just left of voxel 0 the start is one lower
ASSUME A_WStartQFloors == WStartQ(<<-4, -1, 4>>, <<8, 8, 8>>, 8) = <<-5, -5, -4>> /\ WStartQ(<<5, 4, 3>>, <<7, 7, 7>>, 8) = <<-3, -3, -4>>
=============================================================================

---------------------------- MODULE MC_TiltStack ----------------------------
(* Model-checking configurations of TiltStack.tla.                                                         *)
(*   small  (Mode "enum"): 2..4 tilts of 2x3 / 3x2 / 5x4 images (unique tokens) and of 2x4 / 3x6 images      *)
(*           carrying the binning pattern, both element types; every angle order, every non-empty proper index subset     *)
(*           (0- and 1-based), both halves of the split, the flip axes, every admissible crop window,        *)
(*           binning 1..3; every (input order, output order, source, output file) combination               *)
(*   script (Mode "script"): cases of the driver's seeded generator (stacks of 2..25 tilts, sizes 4..40)      *)
EXTENDS TiltStack, IOUtils

Params == JsonDeserialize(IOEnv.C15_PARAMS)
SmallShapes == {<<2, 3, "uniq", 1>>, <<3, 2, "uniq", 1>>, <<5, 4, "uniq", 1>>, <<2, 4, "bin", 2>>, <<3, 6, "bin", 3>>}
SmallStacks == {[stack |-> MkStack([n |-> n, h |-> s[1], w |-> s[2], kind |-> s[3], f |-> s[4]]), dtype |-> ty] :
                   n \in 2..4, s \in SmallShapes, ty \in {"f32", "i16"}}
TinyStacks == {[stack |-> MkStack([n |-> 2, h |-> 2, w |-> 3, kind |-> "uniq", f |-> 1]), dtype |-> "f32"]}
\* (the storage forms offered come from the driver: one seeded form in the quick tier, all four in the thorough one)
Forms == {Params.forms[i] : i \in DOMAIN Params.forms}
AllCfgs == [io : Orders, oo : Orders, src : {"array", "file"}, outf : BOOLEAN, af : Forms]
OneCfg == {[io |-> "xyz", oo |-> "xyz", src |-> "array", outf |-> TRUE, af |-> "c"]}
NoCases == <<>>
NoStacks == {}

ScriptCases == Params.cases
=============================================================================

---------------------------- MODULE MC_SymExpand ----------------------------
(* Configurations of SymExpand.tla: symbolic scope n in 1..64 (structure and Z_n orbit) and the exact scope
   n in {1, 2, 4} (all 24 parent orientations x offsets incl. on-axis and zero x positions with half-voxel ties). *)
EXTENDS SymExpand

Pr(sid, x, s, R, tag) == [sid |-> sid, x |-> x, s |-> s, R |-> R, tag |-> tag]

\* offsets (lattice units): generic, in-plane, on the axis, zero, with eighths
Offsets == { <<24, 8, 16>>, <<16, 0, 0>>, <<0, 0, 12>>, <<0, 0, 0>>, <<-5, 12, 3>>, <<4, 4, 0>> }

\* parent positions: integral, with shifts, with exact half-voxel ties after the offset is added
XS == { << <<80, 160, 240>>, <<0, 0, 0>> >>, << <<16, -24, 40>>, <<3, -4, 12>> >>, << <<-8, 8, 0>>, <<4, 4, -4>> >> }

Second == Pr(0, <<40, 48, 56>>, <<-2, 0, 5>>, Mul(Rx1, Rz1), 7)

ExactCases == { [ps |-> << Pr(8, xs[1], xs[2], R, 4), Second >>, n |-> n, off |-> off, j0 |-> 0] :
                xs \in XS, R \in All, n \in {1, 2, 4}, off \in Offsets }

\* symbolic scope: both index starts, 0..3 parents with unsorted ids, n in 1..64
SymLists == { <<>>, << Pr(5, <<8, 8, 8>>, <<0, 0, 0>>, Id, 1) >>,
              << Pr(9, <<8, 8, 8>>, <<1, 2, 3>>, Rx1, 2), Pr(0, <<16, 0, 8>>, <<0, 0, 0>>, Ry1, 3), Pr(4, <<0, 0, 0>>, <<4, 4, 4>>, Rz1, 1) >> }
\* the orders of the symmetry: the whole range of the property and a few larger ones (float-step pitfalls: 122, 197)
NDomain == 1..64 \cup {122, 197}
SymCases == { [ps |-> l, n |-> n, off |-> <<8, 0, 4>>, j0 |-> j0] : l \in SymLists, n \in NDomain, j0 \in {0, 1} }

AllCases == ExactCases \cup SymCases
=============================================================================

----------------------------- MODULE MaskShapes -----------------------------
(***************************************************************************)
(* C13 - constant-level part of the mask specification: lattice membership *)
(* predicates, the shapes as voxel sets, the name grammar, the voxel-set   *)
(* algebra and the request records.  Extended by Masks.tla (the machine    *)
(* and the property clauses) and by MasksTrace.tla (trace validation).     *)
(*                                                                         *)
(* A mask is the set of voxels <<i, j, k>> (0-based array indices) of a    *)
(* box n = <<n1, n2, n3>> whose value is 1.  Radii of spheres enter as     *)
(* R2 = (2r)^2 so that the half-integer radii r +- t/2 of shells stay      *)
(* integral.  The ellipsoid inequality sum((v_i-c_i)/r_i)^2 <= 1 is        *)
(* decided exactly: cross-multiplied while the products fit into TLC's     *)
(* 32-bit integers, by Euclid's comparison of two fractions otherwise.     *)
(***************************************************************************)
EXTENDS Integers, Sequences, FiniteSets, TLC

Abs(x) == IF x < 0 THEN -x ELSE x
Sq(x)  == x * x
Max2(a, b) == IF a >= b THEN a ELSE b
MaxOf(s) == CHOOSE m \in {s[i] : i \in DOMAIN s} : \A i \in DOMAIN s : s[i] <= m

Box(n) == (0 .. n[1] - 1) \X (0 .. n[2] - 1) \X (0 .. n[3] - 1)
DefaultCentre(n) == <<n[1] \div 2, n[2] \div 2, n[3] \div 2>>
Lin(n, v) == (v[1] * n[2] + v[2]) * n[3] + v[3]            \* C-order linear index of a voxel
LinSet(n, S) == {Lin(n, v) : v \in S}

-----------------------------------------------------------------------------
\* membership predicates (shared with MasksTrace)

D2(v, c) == Sq(v[1] - c[1]) + Sq(v[2] - c[2]) + Sq(v[3] - c[3])

\* sphere: distance <= r, with R2 = (2r)^2
InSphere(v, c, R2) == 4 * D2(v, c) <= R2

\* cylinder: planar distance <= r and |k - cz| <= floor(h/2)
InCyl(v, c, r, h) == /\ Sq(v[1] - c[1]) + Sq(v[2] - c[2]) <= Sq(r)
                     /\ Abs(v[3] - c[3]) <= h \div 2

\* a/b <= c/d for a, c >= 0 and b, d > 0, exactly, with no product (continued-fraction comparison)
RECURSIVE FracLeq(_, _, _, _)
FracLeq(a, b, c, d) ==
    LET qa == a \div b
        qc == c \div d
        ra == a % b
        rc == c % d
    IN  IF qa # qc THEN qa < qc
        ELSE IF ra = 0 THEN TRUE
        ELSE IF rc = 0 THEN FALSE
        ELSE FracLeq(d, rc, b, ra)

\* ellipsoid: (dx/a)^2 + (dy/b)^2 + (dz/c)^2 <= 1
\* (X) cross-multiplied, usable while the products stay inside 32 bits (|d| <= 48, radii <= 20: lhs <= 1.2e9)
EllLhs(v, c, rr) == Sq(v[1] - c[1]) * Sq(rr[2]) * Sq(rr[3]) + Sq(v[2] - c[2]) * Sq(rr[1]) * Sq(rr[3])
                      + Sq(v[3] - c[3]) * Sq(rr[1]) * Sq(rr[2])
EllRhs(rr)       == Sq(rr[1]) * Sq(rr[2]) * Sq(rr[3])
InEllX(v, c, rr) == EllLhs(v, c, rr) <= EllRhs(rr)
OnEllX(v, c, rr) == EllLhs(v, c, rr) = EllRhs(rr)
\* (E) for any radii:  (dx^2 b^2 + dy^2 a^2) / (a^2 b^2) <= (c^2 - dz^2) / c^2  by Euclid's comparison
EllNum(v, c, rr) == Sq(v[1] - c[1]) * Sq(rr[2]) + Sq(v[2] - c[2]) * Sq(rr[1])
EllDen(rr)       == Sq(rr[1]) * Sq(rr[2])
InEllE(v, c, rr) == /\ Sq(v[3] - c[3]) <= Sq(rr[3])
                    /\ FracLeq(EllNum(v, c, rr), EllDen(rr), Sq(rr[3]) - Sq(v[3] - c[3]), Sq(rr[3]))
OnEllE(v, c, rr) == /\ InEllE(v, c, rr)
                    /\ FracLeq(Sq(rr[3]) - Sq(v[3] - c[3]), Sq(rr[3]), EllNum(v, c, rr), EllDen(rr))
SmallRadii(rr) == rr[1] <= 20 /\ rr[2] <= 20 /\ rr[3] <= 20
InEll(v, c, rr) == IF SmallRadii(rr) THEN InEllX(v, c, rr) ELSE InEllE(v, c, rr)
\* exactly on the surface
OnEll(v, c, rr) == IF SmallRadii(rr) THEN OnEllX(v, c, rr) ELSE OnEllE(v, c, rr)
NonZeroOffsets(v, c) == Cardinality({i \in 1..3 : v[i] # c[i]})
\* surface voxels that are not on an axis through the centre: the float expression (3/5)^2 + (4/5)^2 need not
\* evaluate to 1.0, so the property cannot be decided there and these voxels are not compared
\* ... beyond radius 24.  For radii up to 24 the float expression d^2/r^2 (exact integers, one correctly rounded quotient per
\* axis) classifies every lattice point on the surface correctly (verified exhaustively on the pinned tree), so there the
\* statement's "exactly" is enforced on the surface too - Pythagorean points such as (5, 12, 0) on radii (13, 13, c).
CalibratedRadii(rr) == rr[1] <= 24 /\ rr[2] <= 24 /\ rr[3] <= 24
EllUndecided(v, c, rr) == OnEll(v, c, rr) /\ NonZeroOffsets(v, c) > 1 /\ ~CalibratedRadii(rr)

-----------------------------------------------------------------------------
\* the shapes as voxel sets

Sphere(n, c, R2)     == {v \in Box(n) : InSphere(v, c, R2)}
Ball(n, c, r)        == Sphere(n, c, Sq(2 * r))
Cyl(n, c, r, h)      == {v \in Box(n) : InCyl(v, c, r, h)}
Ell(n, c, rr)        == {v \in Box(n) : InEll(v, c, rr)}
EllSkip(n, c, rr)    == {v \in Box(n) : EllUndecided(v, c, rr)}
\* shells: outer solid minus inner solid, radii r +- t/2
SShell(n, c, r, t)   == Sphere(n, c, Sq(2 * r + t)) \ Sphere(n, c, Sq(2 * r - t))
Grow(rr, d)          == <<rr[1] + d, rr[2] + d, rr[3] + d>>
EShell(n, c, rr, t)  == Ell(n, c, Grow(rr, t \div 2)) \ Ell(n, c, Grow(rr, -(t \div 2)))
EShellSkip(n, c, rr, t) == EllSkip(n, c, Grow(rr, t \div 2)) \cup EllSkip(n, c, Grow(rr, -(t \div 2)))

\* the name grammar of generate_mask / parse_shape_string
\* numbers may be spelled with leading zeros (pad = 1): the patterns read \d+
Num(x, pad) == IF pad = 1 THEN "0" \o ToString(x) ELSE ToString(x)
NameOf(kind, nums, pad) ==
    CASE kind = "sphere"    -> "sphere_r" \o Num(nums[1], pad)
      [] kind = "cylinder"  -> "cylinder_r" \o Num(nums[1], pad) \o "_h" \o Num(nums[2], pad)
      [] kind = "s_shell"   -> "s_shell_r" \o Num(nums[1], pad) \o "_s" \o Num(nums[2], pad)
      [] kind = "ellipsoid" -> "ellipsoid_rx" \o Num(nums[1], pad) \o "_ry" \o Num(nums[2], pad) \o "_rz" \o Num(nums[3], pad)
      [] kind = "e_shell"   -> "e_shell_rx" \o Num(nums[1], pad) \o "_ry" \o Num(nums[2], pad) \o "_rz" \o Num(nums[3], pad)
                                 \o "_s" \o Num(nums[4], pad)
EvenUp(x) == 2 * ((x + 1) \div 2)
\* edge of the cubic box: the requested one, else 2 max(numbers) + 4 rounded up to even; spherical shells add the thickness
NameEdge(kind, nums, size, exp) ==
    LET base == IF size > 0 THEN size ELSE EvenUp(2 * MaxOf(nums) + exp)
    IN  IF kind = "s_shell" THEN EvenUp(base + nums[2]) ELSE base
NameBox(kind, nums, size, exp) == LET e == NameEdge(kind, nums, size, exp) IN <<e, e, e>>
FromName(kind, nums, size, exp) ==
    LET n == NameBox(kind, nums, size, exp)
        c == DefaultCentre(n)
    IN  CASE kind = "sphere"    -> Ball(n, c, nums[1])
          [] kind = "cylinder"  -> Cyl(n, c, nums[1], nums[2])
          [] kind = "s_shell"   -> SShell(n, c, nums[1], nums[2])
          [] kind = "ellipsoid" -> Ell(n, c, <<nums[1], nums[2], nums[3]>>)
          [] kind = "e_shell"   -> EShell(n, c, <<nums[1], nums[2], nums[3]>>, nums[4])
NameSkip(kind, nums, size, exp) ==
    LET n == NameBox(kind, nums, size, exp)
        c == DefaultCentre(n)
    IN  CASE kind = "ellipsoid" -> EllSkip(n, c, <<nums[1], nums[2], nums[3]>>)
          [] kind = "e_shell"   -> EShellSkip(n, c, <<nums[1], nums[2], nums[3]>>, nums[4])
          [] OTHER -> {}

-----------------------------------------------------------------------------
\* voxel-set algebra on a list (sequence) of masks
UnionM(ms) == UNION {ms[i] : i \in DOMAIN ms}
InterM(ms) == {v \in ms[1] : \A i \in DOMAIN ms : v \in ms[i]}
SubM(ms)   == ms[1] \ UNION {ms[i] : i \in 2 .. Len(ms)}
Xor(a, b)  == (a \ b) \cup (b \ a)
DiffM(ms)  == Xor(ms[1], ms[2])                       \* stated for two masks only

-----------------------------------------------------------------------------
\* requests
\*   [shape |-> "sphere",  n, c, dc, r]            dc = TRUE: the centre is left to the default (c = DefaultCentre(n))
\*   [shape |-> "cyl",     n, c, dc, r, h]
\*   [shape |-> "ell",     n, c, dc, rr]           even boxes
\*   [shape |-> "sshell",  n, c, dc, r, t]         2r >= t
\*   [shape |-> "eshell",  n, c, dc, rr, t]        even boxes, t even, rr[i] - t/2 >= 1
\*   [shape |-> "name",    kind, nums, size, exp, pad]   size = 0: default box 2 max + exp (mask_expansion), pad: spelling
\*   [shape |-> "empty",   n]                      the empty mask (algebra input)
\*   [shape |-> "bits",    n, bit]                 truth-table mask: voxel v belongs iff bit `bit` of Lin(v) is set
\*   [shape |-> "algebra", n, parts]               parts: sequence of 1..5 requests with the same box
Pow2(e) == IF e = 0 THEN 1 ELSE IF e = 1 THEN 2 ELSE IF e = 2 THEN 4 ELSE IF e = 3 THEN 8 ELSE 16
BoxOf(q) == IF q.shape = "name" THEN NameBox(q.kind, q.nums, q.size, q.exp) ELSE q.n

MaskOf(q) ==
    CASE q.shape = "sphere" -> Ball(q.n, q.c, q.r)
      [] q.shape = "cyl"    -> Cyl(q.n, q.c, q.r, q.h)
      [] q.shape = "ell"    -> Ell(q.n, q.c, q.rr)
      [] q.shape = "sshell" -> SShell(q.n, q.c, q.r, q.t)
      [] q.shape = "eshell" -> EShell(q.n, q.c, q.rr, q.t)
      [] q.shape = "name"   -> FromName(q.kind, q.nums, q.size, q.exp)
      [] q.shape = "bits"   -> {v \in Box(q.n) : (Lin(q.n, v) \div Pow2(q.bit - 1)) % 2 = 1}
      [] q.shape = "empty"  -> {}

SkipOf(q) ==
    CASE q.shape = "ell"    -> EllSkip(q.n, q.c, q.rr)
      [] q.shape = "eshell" -> EShellSkip(q.n, q.c, q.rr, q.t)
      [] q.shape = "name"   -> NameSkip(q.kind, q.nums, q.size, q.exp)
      [] OTHER -> {}

WellFormed(q) ==
    CASE q.shape = "sphere" -> q.r >= 1 /\ q.c \in Box(q.n) /\ (q.dc => q.c = DefaultCentre(q.n))
      [] q.shape = "cyl"    -> q.r >= 1 /\ q.h >= 1 /\ q.c \in Box(q.n) /\ (q.dc => q.c = DefaultCentre(q.n))
      [] q.shape = "ell"    -> /\ \A i \in 1..3 : q.rr[i] >= 1 /\ q.n[i] % 2 = 0
                               /\ q.c \in Box(q.n) /\ (q.dc => q.c = DefaultCentre(q.n))
      [] q.shape = "sshell" -> q.t >= 1 /\ 2 * q.r >= q.t /\ q.c \in Box(q.n) /\ (q.dc => q.c = DefaultCentre(q.n))
      [] q.shape = "eshell" -> /\ q.t >= 2 /\ q.t % 2 = 0
                               /\ \A i \in 1..3 : q.rr[i] - q.t \div 2 >= 1 /\ q.n[i] % 2 = 0
                               /\ q.c \in Box(q.n) /\ (q.dc => q.c = DefaultCentre(q.n))
      [] q.shape = "name"   -> /\ \A i \in DOMAIN q.nums : q.nums[i] >= 1
                               /\ q.exp >= 0 /\ q.pad \in {0, 1}
                               /\ q.kind = "s_shell" => 2 * q.nums[1] >= q.nums[2] /\ q.size = 0
                               /\ q.kind = "e_shell" => /\ q.nums[4] % 2 = 0
                                                        /\ \A i \in 1..3 : q.nums[i] - q.nums[4] \div 2 >= 1
                               /\ q.kind \in {"ellipsoid", "e_shell"} => q.size % 2 = 0
      [] q.shape = "bits"   -> q.bit \in 1..5
      [] q.shape = "empty"  -> TRUE
      [] q.shape = "algebra" -> /\ Len(q.parts) \in 1..5
                                /\ q.cont \in {"list", "tuple"}          \* the container the masks are handed over in
                                /\ \A i \in DOMAIN q.parts : q.parts[i].shape # "algebra" /\ BoxOf(q.parts[i]) = q.n


\* membership of one voxel in the mask a (non-algebra, non-name) request asks for, and "the property does not decide"
In(q, v) ==
    CASE q.shape = "sphere" -> InSphere(v, q.c, Sq(2 * q.r))
      [] q.shape = "cyl"    -> InCyl(v, q.c, q.r, q.h)
      [] q.shape = "ell"    -> InEll(v, q.c, q.rr)
      [] q.shape = "sshell" -> InSphere(v, q.c, Sq(2 * q.r + q.t)) /\ ~InSphere(v, q.c, Sq(2 * q.r - q.t))
      [] q.shape = "eshell" -> InEll(v, q.c, Grow(q.rr, q.t \div 2)) /\ ~InEll(v, q.c, Grow(q.rr, -(q.t \div 2)))
Undecided(q, v) ==
    CASE q.shape = "ell"    -> EllUndecided(v, q.c, q.rr)
      [] q.shape = "eshell" -> EllUndecided(v, q.c, Grow(q.rr, q.t \div 2)) \/ EllUndecided(v, q.c, Grow(q.rr, -(q.t \div 2)))
      [] OTHER -> FALSE
=============================================================================

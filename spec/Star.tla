-------------------------------- MODULE Star --------------------------------
(***************************************************************************)
(* C02 (+ file paths of C03, C04) - STAR text as a sequence of lines, each *)
(* line a sequence of byte codes 0..255.  The split at LF (byte 10) is the *)
(* only lexing done outside TLA+ (TLC cannot index strings).               *)
(*                                                                         *)
(* Contents                                                                *)
(*   Tokens / CommentOf   independent tokenizer of one line               *)
(*   Parse                blocks [name, labels, suffix, rows] of a text    *)
(*                        made of data blocks with one loop each; decides *)
(*                        well-formedness (ok)                             *)
(*   IsNumeric / NumCanon numeric tokens and their exact decimal value     *)
(*   ColType / Typed      numeric columns as numbers, all others as text   *)
(*   Render               a document laid out with the freedoms the        *)
(*                        property permits (Layout record)                 *)
(*   WriterShape          the layout Starfile.write uses                   *)
(*                                                                         *)
(* All operators applied to file-sized texts are non-recursive (index sets *)
(* + SubSeq + SortSeq); the recursive helpers are only used by Render on   *)
(* small documents.                                                        *)
(***************************************************************************)
EXTENDS Integers, Sequences, FiniteSets, TLC

LOCAL INSTANCE SequencesExt

SP == 32   TAB == 9   CR == 13   HASH == 35   USC == 95
DOT == 46  PLUS == 43 MINUS == 45
White == {SP, TAB}
Digit == 48..57
LoopTok == <<108, 111, 111, 112, 95>>            \* loop_
DataPrefix == <<100, 97, 116, 97, 95>>           \* data_
StopgapWord == <<115, 116, 111, 112, 103, 97, 112>>   \* stopgap

\* forces a function with domain 1..n into an explicit tuple (TLC evaluates [i \in S |-> e] lazily, per application)
Force(f) == f \o <<>>

SetMin(S) == CHOOSE x \in S : \A y \in S : x <= y      \* only used on small sets
SetMax(S) == CHOOSE x \in S : \A y \in S : x >= y
Asc(S) == SortSeq(SetToSeq(S), LAMBDA a, b : a < b)

-----------------------------------------------------------------------------
\* one line

StripCR(l) == IF Len(l) > 0 /\ l[Len(l)] = CR THEN SubSeq(l, 1, Len(l) - 1) ELSE l

HashAt(l) == LET H == {i \in 1..Len(l) : l[i] = HASH} IN IF H = {} THEN 0 ELSE SetMin(H)

\* the part of the line before the first '#'
CodePart(l0) == LET l == StripCR(l0)  h == HashAt(l) IN IF h = 0 THEN l ELSE SubSeq(l, 1, h - 1)

TrimBlanks(s) == LET K == {i \in 1..Len(s) : s[i] \notin White}
                 IN  IF K = {} THEN <<>> ELSE SubSeq(s, SetMin(K), SetMax(K))

\* <<FALSE, <<>>>> when the line has no comment, else <<TRUE, comment text without surrounding blanks>>
CommentOf(l0) == LET l == StripCR(l0)  h == HashAt(l)
                 IN  IF h = 0 THEN <<FALSE, <<>>>> ELSE <<TRUE, TrimBlanks(SubSeq(l, h + 1, Len(l)))>>

\* maximal runs of non-blank bytes before the first '#'
Tokens(l0) ==
    LET c == CodePart(l0)
        m == Len(c)
        S == {i \in 1..m : c[i] \notin White /\ (i = 1 \/ c[i - 1] \in White)}
        E == {i \in 1..m : c[i] \notin White /\ (i = m \/ c[i + 1] \in White)}
        ss == Asc(S)
        es == Asc(E)
    IN  Force([k \in 1..Len(ss) |-> SubSeq(c, ss[k], es[k])])

IsPrefixOf(p, t) == Len(t) >= Len(p) /\ SubSeq(t, 1, Len(p)) = p
IsDataName(t) == IsPrefixOf(DataPrefix, t)
IsStopgapName(t) == \E i \in 1..Len(t) : i + 6 <= Len(t) /\ SubSeq(t, i, i + 6) = StopgapWord

\* context-free class of a line, from its tokens
LineClass(t) == IF t = <<>> THEN "blank"                 \* empty, blanks only, comment only
                ELSE IF t = <<LoopTok>> THEN "loop"
                ELSE IF t[1][1] = USC THEN "label"
                ELSE "other"

-----------------------------------------------------------------------------
\* whole text: sequence of blocks, each  name / loop_ / labels / rows, blank and comment lines permitted before a
\* block, between name and loop_, after the labels and after the rows (rows end at the first blank or comment line)

ParseToks(T, Cm) ==
    LET n == Len(T)
        cls == Force([i \in 1..n |-> LineClass(T[i])])
        C(i) == IF i < 1 \/ i > n THEN "edge" ELSE cls[i]
        RunStart == {i \in 1..n + 1 : C(i) # C(i - 1)}             \* first line of every run of equal class
        NextStart(i) == SetMin({j \in RunStart : j > i})            \* defined for i <= n
        PrevStart(i) == SetMax({j \in RunStart : j <= i})           \* defined for i >= 1
        loops == Asc({i \in 1..n : cls[i] = "loop"})
        nb == Len(loops)
        LabEnd(lp) == IF C(lp + 1) = "label" THEN NextStart(lp + 1) - 1 ELSE lp
        RowStart(le) == IF C(le + 1) = "blank" THEN NextStart(le + 1) ELSE le + 1       \* may be n + 1
        RowEnd(rs) == IF C(rs) = "other" THEN NextStart(rs) - 1 ELSE rs - 1
        NameLine(lp) == IF C(lp - 1) = "blank" THEN PrevStart(lp - 1) - 1 ELSE lp - 1   \* may be 0
        B == Force([b \in 1..nb |->
                LET lp == loops[b]  le == LabEnd(lp)  rs == RowStart(le)  re == RowEnd(rs)
                IN  [nm |-> NameLine(lp), lp |-> lp, le |-> le, rs |-> rs, re |-> re]])
        Accounted == UNION {{B[b].nm, B[b].lp} \cup (B[b].lp + 1..B[b].le) \cup (B[b].rs..B[b].re) : b \in 1..nb}
        ok == /\ nb >= 1
              /\ \A b \in 1..nb :
                    /\ B[b].nm >= 1 /\ cls[B[b].nm] = "other"
                    /\ Len(T[B[b].nm]) = 1 /\ IsDataName(T[B[b].nm][1])
                    /\ B[b].nm > (IF b = 1 THEN 0 ELSE B[b - 1].re)
                    /\ B[b].le > B[b].lp
                    /\ \A i \in B[b].lp + 1..B[b].le : Len(T[i]) = 1 /\ Len(T[i][1]) >= 2
                    /\ \A i \in B[b].rs..B[b].re : Len(T[i]) = B[b].le - B[b].lp /\ ~Cm[i][1]
                    /\ ~Cm[B[b].nm][1] /\ ~Cm[B[b].lp][1]
              /\ {i \in 1..n : cls[i] # "blank"} = Accounted
    IN  [ok |-> ok,
         blocks |-> IF ~ok THEN <<>> ELSE Force([b \in 1..nb |->
              [name   |-> T[B[b].nm][1],
               labels |-> Force([k \in 1..B[b].le - B[b].lp |-> Tail(T[B[b].lp + k][1])]),
               suffix |-> Force([k \in 1..B[b].le - B[b].lp |-> Cm[B[b].lp + k]]),
               rows   |-> Force([r \in 1..B[b].re - B[b].rs + 1 |-> T[B[b].rs + r - 1]])]])]

LineToks(text) == Force([i \in 1..Len(text) |-> Tokens(text[i])])
LineComments(text) == Force([i \in 1..Len(text) |-> CommentOf(text[i])])

Parse(text) == ParseToks(LineToks(text), LineComments(text))

\* the part of a parse the property speaks about
Core(blocks) == [b \in DOMAIN blocks |-> [name |-> blocks[b].name, labels |-> blocks[b].labels, rows |-> blocks[b].rows]]

-----------------------------------------------------------------------------
\* numeric tokens:  [+-] (digits [. digits*] | . digits) [ (e|E) [+-] digits ]

IsNumeric(t) ==
    LET n == Len(t)
        s0 == IF n >= 1 /\ t[1] \in {PLUS, MINUS} THEN 2 ELSE 1
        EP == {i \in s0..n : t[i] \in {69, 101}}
        me == IF EP = {} THEN n ELSE SetMin(EP) - 1                  \* mantissa = t[s0..me]
        DP == {i \in s0..me : t[i] = DOT}
        x0 == IF EP = {} THEN n + 1
              ELSE IF me + 2 <= n /\ t[me + 2] \in {PLUS, MINUS} THEN me + 3 ELSE me + 2    \* exponent digits = t[x0..n]
    IN  /\ n >= 1
        /\ Cardinality(EP) <= 1 /\ Cardinality(DP) <= 1
        /\ \A i \in s0..me : t[i] \in Digit \/ t[i] = DOT
        /\ \E i \in s0..me : t[i] \in Digit
        /\ EP # {} => (x0 <= n /\ \A i \in x0..n : t[i] \in Digit)

\* value of up to four decimal digits
SmallNat(d) == LET v(i) == d[i] - 48  n == Len(d)
               IN  CASE n = 0 -> 0 [] n = 1 -> v(1) [] n = 2 -> 10 * v(1) + v(2)
                     [] n = 3 -> 100 * v(1) + 10 * v(2) + v(3)
                     [] n = 4 -> 1000 * v(1) + 100 * v(2) + 10 * v(3) + v(4)

ZeroCanon == [neg |-> FALSE, digits |-> <<>>, exp |-> 0]

\* exact value of a numeric token:  (-1)^neg * digits * 10^exp,  digits without leading / trailing zeros
NumCanon(t) ==
    LET n == Len(t)
        neg == t[1] = MINUS
        s0 == IF t[1] \in {PLUS, MINUS} THEN 2 ELSE 1
        EP == {i \in s0..n : t[i] \in {69, 101}}
        me == IF EP = {} THEN n ELSE SetMin(EP) - 1
        DP == {i \in s0..me : t[i] = DOT}
        dp == IF DP = {} THEN me + 1 ELSE SetMin(DP)
        xneg == EP # {} /\ t[me + 2] = MINUS
        x0 == IF EP = {} THEN n + 1 ELSE IF t[me + 2] \in {PLUS, MINUS} THEN me + 3 ELSE me + 2
        ex == IF EP = {} THEN 0 ELSE (IF xneg THEN -1 ELSE 1) * SmallNat(SubSeq(t, x0, n))
        mant == SubSeq(t, s0, dp - 1) \o SubSeq(t, dp + 1, me)          \* integer and fraction digits
        nfrac == IF dp > me THEN 0 ELSE me - dp
        NZ == {i \in 1..Len(mant) : mant[i] # 48}
    IN  IF NZ = {} THEN ZeroCanon
        ELSE LET a == SetMin(NZ)  z == SetMax(NZ)
             IN  [neg |-> neg,
                  digits |-> Force([i \in 1..z - a + 1 |-> mant[a + i - 1] - 48]),
                  exp |-> ex - nfrac + (Len(mant) - z)]

\* canonical form of  (-1)^neg * ds * 10^e  for an arbitrary digit sequence ds
Normalize(neg, ds, e) ==
    LET NZ == {i \in 1..Len(ds) : ds[i] # 0}
    IN  IF NZ = {} THEN ZeroCanon
        ELSE LET a == SetMin(NZ)  z == SetMax(NZ)
             IN  [neg |-> neg, digits |-> Force([i \in 1..z - a + 1 |-> ds[a + i - 1]]), exp |-> e + (Len(ds) - z)]

\* Rnd6: decimal rounding to 6 places (exact halves to the even neighbour), the precision of Starfile.write
RoundTo6(c) ==
    IF c.digits = <<>> \/ c.exp >= -6 THEN c
    ELSE LET n == Len(c.digits)
             keep == n - (-6 - c.exp)                       \* digits up to the 6th decimal place (may be <= 0)
         IN  IF keep < 0 THEN ZeroCanon
             ELSE LET first == c.digits[keep + 1]
                      tie == first = 5 /\ keep + 1 = n       \* digits carry no trailing zeros
                      lastkept == IF keep = 0 THEN 0 ELSE c.digits[keep]
                      up == first > 5 \/ (first = 5 /\ ~tie) \/ (tie /\ lastkept % 2 = 1)
                      K == SubSeq(c.digits, 1, keep)
                      NN == {i \in 1..keep : K[i] # 9}
                  IN  IF ~up THEN Normalize(c.neg, K, -6)
                      ELSE IF NN = {} THEN Normalize(c.neg, <<1>> \o [i \in 1..keep |-> 0], -6)
                      ELSE LET j == SetMax(NN)
                           IN  Normalize(c.neg, [i \in 1..keep |-> IF i < j THEN K[i] ELSE IF i = j THEN K[i] + 1 ELSE 0], -6)

\* type of column k of a block's rows ("none" for a table without rows)
ColType(rows, k) == IF Len(rows) = 0 THEN "none"
                    ELSE IF \A r \in 1..Len(rows) : IsNumeric(rows[r][k]) THEN "num" ELSE "text"

\* what a reader must return: names, labels, per column its type and cells (exact decimal value | unchanged text)
Typed(blocks) ==
    Force([b \in 1..Len(blocks) |->
        LET blk == blocks[b]
            nc == Len(blk.labels)
            ty == Force([k \in 1..nc |-> ColType(blk.rows, k)])
        IN  [name |-> blk.name, labels |-> blk.labels, types |-> ty,
             rows |-> Force([r \in 1..Len(blk.rows) |->
                        Force([k \in 1..nc |-> IF ty[k] = "num" THEN [num |-> NumCanon(blk.rows[r][k])]
                                                ELSE [text |-> blk.rows[r][k]]])])]])

\* the same with every numeric cell rounded to 6 decimals (what a STAR round trip preserves)
Round6Blocks(tbs) ==
    Force([b \in 1..Len(tbs) |->
        [name |-> tbs[b].name, labels |-> tbs[b].labels, types |-> tbs[b].types,
         rows |-> Force([r \in 1..Len(tbs[b].rows) |->
                    Force([k \in 1..Len(tbs[b].rows[r]) |->
                        LET c == tbs[b].rows[r][k]
                        IN  IF tbs[b].types[k] = "num" /\ "num" \in DOMAIN c THEN [num |-> RoundTo6(c.num)] ELSE c])])]])

-----------------------------------------------------------------------------
\* rendering a document with a layout (small documents only: the helpers below recurse)

RECURSIVE FlatR(_)
FlatR(ss) == IF ss = <<>> THEN <<>> ELSE Head(ss) \o FlatR(Tail(ss))
Flat(ss) == FlatR(Force(ss))

DigitsOf(k) == IF k < 10 THEN <<48 + k>> ELSE <<48 + (k \div 10), 48 + (k % 10)>>

CommentLine == <<35, 32, 99, 32, 95, 120, 32, 108, 111, 111, 112, 95, 32, 100, 97, 116, 97, 95, 113, 32, 49>>   \* "# c _x loop_ data_q 1"
IndentedComment == <<32, 9, 35, 100, 97, 116, 97, 95, 122>>                                                   \* " \t#data_z"
GapLine(kind) == CASE kind = "blank" -> <<>>
                   [] kind = "ws" -> <<32, 9, 32>>
                   [] kind = "comment" -> CommentLine
                   [] kind = "icomment" -> IndentedComment
GapLines(g) == [i \in 1..Len(g) |-> GapLine(g[i])]

\* Layout: pre, between, afterName, afterLabels, post : sequences of gap kinds; suffix \in {"none","sp","tab"};
\*         seps : non-empty sequence of separators (used cyclically); lead, trail : blanks; crlf, finalNL : BOOLEAN
SepOf(lay, r, c) == lay.seps[((r + c) % Len(lay.seps)) + 1]

RowLine(lay, r, toks) == lay.lead \o Flat(Force([c \in 1..Len(toks) |-> IF c = 1 THEN toks[c] ELSE SepOf(lay, r, c) \o toks[c]])) \o lay.trail

LabelLine(lay, k, lab) == <<USC>> \o lab
                          \o (CASE lay.suffix = "none" -> <<>>
                                [] lay.suffix = "sp" -> <<SP, HASH>> \o DigitsOf(k)
                                [] lay.suffix = "tab" -> <<TAB, HASH>> \o DigitsOf(k) \o <<SP>>)
                          \o (IF lay.suffix = "none" THEN lay.trail ELSE <<>>)

BlockLines(lay, blk) == <<blk.name \o lay.trail>> \o GapLines(lay.afterName) \o <<LoopTok>>
                        \o [k \in 1..Len(blk.labels) |-> LabelLine(lay, k, blk.labels[k])]
                        \o GapLines(lay.afterLabels)
                        \o [r \in 1..Len(blk.rows) |-> RowLine(lay, r, blk.rows[r])]

Render(doc, lay) ==
    LET nb == Len(doc)
        body == GapLines(lay.pre)
                \o Flat(Force([b \in 1..nb |-> (IF b = 1 THEN <<>> ELSE GapLines(lay.between)) \o BlockLines(lay, doc[b])]))
                \o GapLines(lay.post)
        m == Len(body)
        eol == [i \in 1..m |-> IF lay.crlf /\ (i < m \/ lay.finalNL) THEN body[i] \o <<CR>> ELSE body[i]]
    IN  IF lay.finalNL THEN eol \o <<<<>>>> ELSE eol

\* suffix a layout makes the parser see on label k
SuffixSeen(lay, k) == IF lay.suffix = "none" THEN <<FALSE, <<>>>> ELSE <<TRUE, DigitsOf(k)>>

\* the layout of Starfile.write:  "\n<name>\n\nloop_\n_<label> #k\n ... <cells '{:<10}' joined by TAB>\n\n"
Pad10(t) == IF Len(t) >= 10 THEN t ELSE t \o [i \in 1..10 - Len(t) |-> SP]
WriterShape(doc, numbered) ==
    Flat([b \in 1..Len(doc) |->
        LET blk == doc[b]
            sg == IsStopgapName(blk.name)
        IN  <<<<>>, blk.name, <<>>, LoopTok>>
            \o [k \in 1..Len(blk.labels) |-> <<USC>> \o blk.labels[k]
                                              \o (IF numbered /\ ~sg THEN <<SP, HASH>> \o DigitsOf(k) ELSE <<>>)]
            \o (IF sg THEN <<<<>>>> ELSE <<>>)
            \o [r \in 1..Len(blk.rows) |-> Flat([c \in 1..Len(blk.rows[r]) |->
                                                  IF c = 1 THEN Pad10(blk.rows[r][c]) ELSE <<TAB>> \o Pad10(blk.rows[r][c])])]
            \o <<<<>>>>])
    \o <<<<>>>>

\* label numbering of a written file: numbered RELION-style labels carry their position, un-numbered ones nothing
SuffixOK(blk, numbered) ==
    LET nc == Len(blk.labels)
        allpos == \A k \in 1..nc : blk.suffix[k] = <<TRUE, DigitsOf(k)>>
        allnone == \A k \in 1..nc : ~blk.suffix[k][1]
    IN  IF ~numbered THEN allnone
        ELSE IF IsStopgapName(blk.name) THEN allnone \/ allpos
        ELSE allpos
=============================================================================

----------------------------- MODULE TiltStack -----------------------------
(***************************************************************************)
(* C15 - tilt-stack operations.                                            *)
(*                                                                         *)
(* A stack is a sequence of images; an image has a height h (rows, the y   *)
(* index), a width w (columns, the x index) and pixels px[r][c].  Pixels   *)
(* are integers: for the selecting / permuting operations they are opaque  *)
(* tokens (the driver interprets them injectively), for binning they are   *)
(* the pixel values themselves (block sums are taken).                     *)
(*                                                                         *)
(* One call of the library is one action.  A call receives the stack as an *)
(* array in order io ("xyz": A[x][y][n], "zyx": A[n][y][x]) or as an MRC   *)
(* file (header nx = w, ny = h, nz = number of tilts, x fastest), returns   *)
(* the result as an array in order oo and, when asked, writes the result -  *)
(* always as a stack, whatever oo is - to an MRC file.  The encodings are   *)
(* part of this specification: TLC emits the concrete input array / file    *)
(* document and the expected returned arrays / written documents.           *)
(*                                                                         *)
(* Mode "enum": every operation with every parameter value of the small     *)
(* scope is offered (model checking, transition tests).  Mode "script":     *)
(* each initial state is a case of the driver's seeded generator (a stack    *)
(* description and a list of calls); TLC executes the calls and computes     *)
(* what each must return.                                                    *)
(***************************************************************************)
EXTENDS Integers, Sequences, FiniteSets, TLC, Json

CONSTANTS
    Mode,           \* "enum" | "script"
    InitStacks,     \* enum: set of [stack, dtype]
    Cases,          \* script: sequence of [n, h, w, kind, f, dtype, ops]
    Cfgs,           \* enum: set of [io, oo, src, outf] offered
    MaxDepth,
    Emit            \* BOOLEAN: print every transition

VARIABLES stack, dtype, cid, parts, res, op, d
vars == <<stack, dtype, cid, parts, res, op, d>>

Orders == {"xyz", "zyx"}

-----------------------------------------------------------------------------
\* stacks
NT(S) == Len(S)
HT(S) == S[1].h
WD(S) == S[1].w
MkImg(h, w, F(_, _)) == [h |-> h, w |-> w, px |-> [r \in 1..h |-> [c \in 1..w |-> F(r, c)]]]

IsStack(S) == /\ Len(S) >= 1
              /\ \A k \in 1..Len(S) : /\ S[k].h = HT(S) /\ S[k].w = WD(S) /\ S[k].h >= 1 /\ S[k].w >= 1
                                      /\ Len(S[k].px) = S[k].h
                                      /\ \A r \in 1..S[k].h : Len(S[k].px[r]) = S[k].w

\* ---- encodings
ArrOf(S, order) ==
    IF order = "zyx" THEN [k \in 1..NT(S) |-> [r \in 1..HT(S) |-> [c \in 1..WD(S) |-> S[k].px[r][c]]]]
    ELSE [c \in 1..WD(S) |-> [r \in 1..HT(S) |-> [k \in 1..NT(S) |-> S[k].px[r][c]]]]

StackOfArr(A, order) ==
    IF order = "zyx"
    THEN [k \in 1..Len(A) |-> LET F(r, c) == A[k][r][c] IN MkImg(Len(A[1]), Len(A[1][1]), F)]
    ELSE [k \in 1..Len(A[1][1]) |-> LET F(r, c) == A[c][r][k] IN MkImg(Len(A[1]), Len(A), F)]

\* the MRC document of a stack: nx = width, ny = height, nz = tilts; pixel (c, r) of image k at c + nx (r + ny k)
DocOf(S, ty) ==
    LET nx == WD(S)
        ny == HT(S)
    IN  [dims |-> <<nx, ny, NT(S)>>, mode |-> ty,
         data |-> [q \in 1..(nx * ny * NT(S)) |->
                     S[((q - 1) \div (nx * ny)) + 1].px[(((q - 1) \div nx) % ny) + 1][((q - 1) % nx) + 1]]]

StackOfDoc(D) ==
    [k \in 1..D.dims[3] |->
        LET F(r, c) == D.data[1 + (c - 1) + D.dims[1] * ((r - 1) + D.dims[2] * (k - 1))] IN MkImg(D.dims[2], D.dims[1], F)]

-----------------------------------------------------------------------------
\* the operations on abstract stacks
ToSet(s) == {s[i] : i \in DOMAIN s}

\* ranks[i] = rank (1 = smallest) of the tilt angle of image i; angles have no ties
SortS(S, ranks) == [k \in 1..NT(S) |-> S[CHOOSE i \in 1..NT(S) : ranks[i] = k]]

\* R = set of 1-based positions to drop
Kept(n, R) == (1..n) \ R
NthKept(n, R, k) == CHOOSE i \in Kept(n, R) : Cardinality({j \in Kept(n, R) : j < i}) = k - 1
RemoveS(S, R) == [k \in 1..Cardinality(Kept(NT(S), R)) |-> S[NthKept(NT(S), R, k)]]

EvenS(S) == [k \in 1..((NT(S) + 1) \div 2) |-> S[2 * k - 1]]         \* 0-based even positions: first, third, ...
OddS(S) == [k \in 1..(NT(S) \div 2) |-> S[2 * k]]
Interleave(E, O) == [k \in 1..(Len(E) + Len(O)) |-> IF k % 2 = 1 THEN E[(k + 1) \div 2] ELSE O[k \div 2]]

\* IMOD clip flipx / flipy / flipz: 'x' mirrors about the x axis (row order reversed), 'y' reverses the columns,
\* 'z' reverses the order of the images
FlipImgX(I) == LET F(r, c) == I.px[I.h + 1 - r][c] IN MkImg(I.h, I.w, F)
FlipImgY(I) == LET F(r, c) == I.px[r][I.w + 1 - c] IN MkImg(I.h, I.w, F)
Flip1(S, a) == CASE a = "x" -> [k \in 1..NT(S) |-> FlipImgX(S[k])]
                 [] a = "y" -> [k \in 1..NT(S) |-> FlipImgY(S[k])]
                 [] a = "z" -> [k \in 1..NT(S) |-> S[NT(S) + 1 - k]]
\* a list of axes is the concatenation of the single flips, in list order (repeats allowed: they cancel in pairs)
RECURSIVE FlipS(_, _)
FlipS(S, axes) == IF Len(axes) = 0 THEN S ELSE FlipS(Flip1(S, Head(axes)), Tail(axes))

\* central window of w2 x h2 pixels (0 = keep that size).  The centre convention of the package is floor(N / 2): the
\* centre of an axis of length N is the 0-based index N \div 2 (so for the map boxes and the masks), and the central
\* window of length n is the one whose own centre index n \div 2 lies on it: it starts at N \div 2 - n \div 2.  For
\* sizes of equal parity that is (N - n) / 2 on both sides; for an even length cropped to an odd one the window has
\* one pixel more cut off in front than behind, for an odd length cropped to an even one one pixel less.
CropOK(S, w2, h2) == /\ w2 = 0 \/ (w2 >= 1 /\ w2 <= WD(S))
                     /\ h2 = 0 \/ (h2 >= 1 /\ h2 <= HT(S))
CropStart(len, new) == len \div 2 - new \div 2
CropImg(I, w2, h2) == LET ww == IF w2 = 0 THEN I.w ELSE w2
                          hh == IF h2 = 0 THEN I.h ELSE h2
                          F(r, c) == I.px[CropStart(I.h, hh) + r][CropStart(I.w, ww) + c]
                      IN  MkImg(hh, ww, F)
CropS(S, w2, h2) == [k \in 1..NT(S) |-> CropImg(S[k], w2, h2)]

\* binning: f x f block means.  Only offered when both sizes are multiples of f and every block sum is a multiple of
\* f * f, so that the mean is an integer and no rounding rule is assumed.
RECURSIVE SumTo(_, _)
SumTo(G(_), n) == IF n = 0 THEN 0 ELSE G(n) + SumTo(G, n - 1)
BlockSum(I, f, r, c) == LET G(m) == I.px[(r - 1) * f + ((m - 1) \div f) + 1][(c - 1) * f + ((m - 1) % f) + 1]
                        IN  SumTo(G, f * f)
BinOK(S, f) == /\ f >= 1 /\ HT(S) % f = 0 /\ WD(S) % f = 0
               /\ \A k \in 1..NT(S) : \A r \in 1..(HT(S) \div f) : \A c \in 1..(WD(S) \div f) :
                      BlockSum(S[k], f, r, c) % (f * f) = 0
BinImg(I, f) == LET F(r, c) == BlockSum(I, f, r, c) \div (f * f) IN MkImg(I.h \div f, I.w \div f, F)
BinS(S, f) == [k \in 1..NT(S) |-> BinImg(S[k], f)]

-----------------------------------------------------------------------------
\* calls.  o = [name, io, oo, src, outf, af, ...parameters].  af is the storage form of the array that is handed in
\* (src = "array"): "c" C-ordered, "f" Fortran-ordered, "view" a non-contiguous view of a larger array, "ro" read-only.
\* It is a parameter of the call and does not enter the result (the array denotes the same stack in every form).
IdxSet(o) == {i + (1 - o.base) : i \in ToSet(o.idx)}        \* the 1-based positions meant by the index list

Valid(o, S) ==
    CASE o.name = "sort"   -> Len(o.ranks) = NT(S) /\ ToSet(o.ranks) = 1..NT(S)
      [] o.name = "remove" -> IdxSet(o) # {} /\ IdxSet(o) \subseteq 1..NT(S) /\ IdxSet(o) # 1..NT(S)
                              /\ Cardinality(IdxSet(o)) = Len(o.idx)
      [] o.name = "split"  -> NT(S) >= 2
      [] o.name = "flip"   -> Len(o.axes) \in 1..3 /\ ToSet(o.axes) \subseteq {"x", "y", "z"}
      [] o.name = "crop"   -> CropOK(S, o.w, o.h)
      [] o.name = "bin"    -> BinOK(S, o.f)

\* the abstract result: one stack, or the pair <<even, odd>>
Apply(o, S) ==
    CASE o.name = "sort"   -> <<SortS(S, o.ranks)>>
      [] o.name = "remove" -> <<RemoveS(S, IdxSet(o))>>
      [] o.name = "split"  -> <<EvenS(S), OddS(S)>>
      [] o.name = "flip"   -> <<FlipS(S, o.axes)>>
      [] o.name = "crop"   -> <<CropS(S, o.w, o.h)>>
      [] o.name = "bin"    -> <<BinS(S, o.f)>>

\* what the call receives ...
InputOf(o, S, ty) == IF o.src = "array" THEN [arr |-> ArrOf(S, o.io)] ELSE [doc |-> DocOf(S, ty)]
\* ... and what it must return and write
ResultOf(o, P, ty) == [ret |-> [i \in 1..Len(P) |-> ArrOf(P[i], o.oo)],
                       files |-> IF o.outf THEN [i \in 1..Len(P) |-> DocOf(P[i], ty)] ELSE <<>>]

Do(o) == /\ Valid(o, stack)
         /\ parts' = Apply(o, stack)
         /\ stack' = parts'[IF o.name = "split" /\ o.keep = "odd" THEN 2 ELSE 1]
         /\ res' = ResultOf(o, parts', dtype)
         /\ op' = o
         /\ d' = d + 1
         /\ UNCHANGED <<dtype, cid>>

\* ---- enum mode: the operations and parameters of the small scope
Bij(n) == {p \in [1..n -> 1..n] : \A i, j \in 1..n : i # j => p[i] # p[j]}
SetSeqs(n) == {R \in SUBSET (1..n) : R # {} /\ R # 1..n}
AscSeq(R) == [k \in 1..Cardinality(R) |-> CHOOSE i \in R : Cardinality({j \in R : j < i}) = k - 1]
\* every axis list of length 1..2; every list of length 3 (repeats included) on the smallest stacks only
Ax == {"x", "y", "z"}
AxesChoices(S) == {<<a>> : a \in Ax} \cup {<<a, b>> : a, b \in Ax}
                  \cup (IF NT(S) = 2 /\ HT(S) * WD(S) <= 6 THEN {<<a, b, c>> : a, b, c \in Ax} ELSE {})
WithCfg(o, c) == o @@ [io |-> c.io, oo |-> c.oo, src |-> c.src, outf |-> c.outf, af |-> c.af]
EnumOps(S) ==
    LET n == NT(S)
        core == {[name |-> "sort", ranks |-> p] : p \in Bij(n)}
                \cup {[name |-> "remove", idx |-> [k \in 1..Cardinality(R) |-> AscSeq(R)[k] - (1 - b)], base |-> b] :
                        R \in SetSeqs(n), b \in {0, 1}}
                \cup {[name |-> "split", keep |-> kp] : kp \in {"even", "odd"}}
                \cup {[name |-> "flip", axes |-> ax] : ax \in AxesChoices(S)}
                \cup {[name |-> "crop", w |-> w2, h |-> h2] : w2 \in 0..WD(S), h2 \in 0..HT(S)}
                \cup {[name |-> "bin", f |-> f] : f \in 1..3}
    IN  {WithCfg(o, c) : o \in core, c \in Cfgs}

\* ---- script mode: stacks described by the cases
\* kind "uniq": every pixel its own token, numbered in (tilt, row, column) order
\* kind "bin" : pixel = 5 * (block number) + in-block pattern a * f + b (a, b = row, column inside the block; it tells
\*              rows from columns) - 7 f^2 on odd blocks (negative values) + a correction on the first pixel of each
\*              block for even f.  The pattern sums to f^2 (f^2 - 1) / 2 over a block: a multiple of f^2 for odd f,
\*              f^2 / 2 short of one for even f - hence the correction.  Every block sum is a multiple of f^2.
UniqPx(n, h, w, k, r, c) == ((k - 1) * h + (r - 1)) * w + c
BinPx(f, h, w, k, r, c) == LET a == (r - 1) % f
                               b == (c - 1) % f
                               blk == ((k - 1) * (h \div f) + ((r - 1) \div f)) * (w \div f) + ((c - 1) \div f)
                           IN  5 * blk + a * f + b - (IF blk % 2 = 0 THEN 0 ELSE 7 * (f * f))
BinFix(f, r, c) == IF f % 2 = 0 /\ (r - 1) % f = 0 /\ (c - 1) % f = 0 THEN (f * f) \div 2 ELSE 0
MkStack(cs) == [k \in 1..cs.n |->
                   LET F(r, c) == IF cs.kind = "bin" THEN BinPx(cs.f, cs.h, cs.w, k, r, c) + BinFix(cs.f, r, c)
                                  ELSE UniqPx(cs.n, cs.h, cs.w, k, r, c)
                   IN  MkImg(cs.h, cs.w, F)]

Init == /\ op = [name |-> "init"]
        /\ d = 0
        /\ parts = <<>>
        /\ res = [ret |-> <<>>, files |-> <<>>]
        /\ IF Mode = "enum"
           THEN \E s \in InitStacks : stack = s.stack /\ dtype = s.dtype /\ cid = 0
           ELSE \E i \in 1..Len(Cases) : cid = i /\ stack = MkStack(Cases[i]) /\ dtype = Cases[i].dtype

Next == /\ d < MaxDepth
        /\ IF Mode = "enum" THEN \E o \in EnumOps(stack) : Do(o)
           ELSE d < Len(Cases[cid].ops) /\ Do(Cases[cid].ops[d + 1])

Spec == Init /\ [][Next]_vars

-----------------------------------------------------------------------------
\* Property clauses (C15)
Is(n) == op'.name = n

\* the same images, the one with the k-th smallest angle at position k
C15_SortPermutes ==
    [][Is("sort") => /\ NT(stack') = NT(stack)
                     /\ \A i \in 1..NT(stack) : stack'[op'.ranks[i]] = stack[i]]_vars

\* exactly the other images, in their original order, for 1- and 0-based indices
C15_RemoveSubsequence ==
    [][Is("remove") =>
          LET R == {i + (1 - op'.base) : i \in ToSet(op'.idx)}
          IN  /\ NT(stack') = NT(stack) - Cardinality(R)
              /\ \A i \in (1..NT(stack)) \ R : stack'[i - Cardinality({j \in R : j < i})] = stack[i]]_vars

C15_Interleave ==
    [][Is("split") => Len(parts') = 2 /\ Interleave(parts'[1], parts'[2]) = stack]_vars

C15_FlipInvolution == \A a \in {"x", "y", "z"} : Flip1(Flip1(stack, a), a) = stack

\* flips along different axes commute, so an axis list means the same in any order
C15_FlipsCommute == \A a, b \in {"x", "y", "z"} : FlipS(stack, <<a, b>>) = FlipS(stack, <<b, a>>)

\* the documented meaning of the axes (IMOD clip flipx / flipy / flipz)
C15_FlipAxis ==
    [][Is("flip") /\ Len(op'.axes) = 1 =>
          /\ NT(stack') = NT(stack)
          /\ \A k \in 1..NT(stack) : \A r \in 1..HT(stack) : \A c \in 1..WD(stack) :
                 stack'[k].px[r][c] = CASE op'.axes[1] = "x" -> stack[k].px[HT(stack) + 1 - r][c]
                                        [] op'.axes[1] = "y" -> stack[k].px[r][WD(stack) + 1 - c]
                                        [] OTHER -> stack[NT(stack) + 1 - k].px[r][c]]_vars

\* the window centre (0-based index n \div 2 of the window) sits on the image centre (0-based index N \div 2), on both
\* axes, whatever the parities; the window holds the pixels of that place
C15_CropCentral ==
    [][Is("crop") =>
          LET ww == IF op'.w = 0 THEN WD(stack) ELSE op'.w
              hh == IF op'.h = 0 THEN HT(stack) ELSE op'.h
          IN  /\ NT(stack') = NT(stack) /\ WD(stack') = ww /\ HT(stack') = hh
              /\ \E c0 \in 0..(WD(stack) - ww), r0 \in 0..(HT(stack) - hh) :
                     /\ c0 + ww \div 2 = WD(stack) \div 2
                     /\ r0 + hh \div 2 = HT(stack) \div 2
                     /\ \A k \in 1..NT(stack) : \A r \in 1..hh : \A c \in 1..ww :
                            stack'[k].px[r][c] = stack[k].px[r0 + r][c0 + c]]_vars

C15_BinBlockMeans ==
    [][Is("bin") =>
          /\ NT(stack') = NT(stack) /\ HT(stack') * op'.f = HT(stack) /\ WD(stack') * op'.f = WD(stack)
          /\ \A k \in 1..NT(stack) : \A r \in 1..HT(stack') : \A c \in 1..WD(stack') :
                 op'.f * op'.f * stack'[k].px[r][c] = BlockSum(stack[k], op'.f, r, c)]_vars

\* the encodings are inverse to each other (so the result cannot depend on how the stack was passed) and the returned
\* array is the abstract result in the requested order
C15_OrderAgnostic ==
    /\ \A o \in Orders : StackOfArr(ArrOf(stack, o), o) = stack
    /\ StackOfDoc(DocOf(stack, dtype)) = stack
C15_ReturnsResult ==
    [][op'.name # "init" => /\ Len(res'.ret) = Len(parts')
                            /\ \A i \in 1..Len(parts') : StackOfArr(res'.ret[i], op'.oo) = parts'[i]]_vars

\* the written file holds the result - as a stack, independent of the order of the returned array
C15_FileHoldsResult ==
    [][op'.name # "init" =>
          IF op'.outf THEN /\ Len(res'.files) = Len(parts')
                           /\ \A i \in 1..Len(parts') : /\ StackOfDoc(res'.files[i]) = parts'[i]
                                                        /\ res'.files[i].dims = <<WD(parts'[i]), HT(parts'[i]), NT(parts'[i])>>
                                                        /\ res'.files[i].mode = dtype
          ELSE res'.files = <<>>]_vars

TypeOK == IsStack(stack) /\ dtype \in {"f32", "i16"} /\ d \in 0..MaxDepth

-----------------------------------------------------------------------------
\* emission: the concrete input of the call and what it must produce
EmitTR == \/ ~Emit
          \/ PrintT(ToJson([cid |-> cid, step |-> d', dtype |-> dtype, inp |-> InputOf(op', stack, dtype), op |-> op',
                            res |-> res']))

View == <<stack, dtype, cid, d>>
=============================================================================

------------------------------ MODULE EmMotlIO ------------------------------
(***************************************************************************)
(* C01 - EM particle-list files.                                           *)
(*                                                                         *)
(* A table is what a pandas DataFrame is: a sequence of column labels      *)
(* (`order`, any permutation of the fields - the Motl constructor accepts  *)
(* every order) and a positional block of cells, `cells[r][i]` being the   *)
(* value of row r in the i-th column, i.e. of field `order[i]`.            *)
(* A file is an EM document: header dimensions (nx, ny, nz), a data type   *)
(* and a linear payload in which x varies fastest.                         *)
(* Values are opaque: Raw(t) is a float64 token, F32(Raw(t)) its single    *)
(* precision rounding (uninterpreted; the driver interprets it with        *)
(* struct), Hole the missing value (NaN), Zero the float 0.                *)
(*                                                                         *)
(* Writer = "byname" is the specification.  Writer = "positional" is the   *)
(* semantics of a writer that dumps the block as it lies in memory; it is  *)
(* kept only as a negative control: TLC must find the clauses violated for *)
(* it (the clauses are not vacuous).                                       *)
(***************************************************************************)
EXTENDS Integers, Sequences, FiniteSets, TLC, Json

CONSTANTS
    Canon,          \* the canonical field order of the file: <<"score", "geom1", ..., "class">>
    InitTables,     \* set of admissible initial tables
    Ops,            \* subset of {"swap", "write_motl", "write_emmotl", "load", "adopt", "droprow", "duprows", "derive",
                    \*            "edit_derived", "edit_source", "write_derived"} enabled
    PfSet,          \* forms of the file-name argument offered: subset of {"str", "path"} (str / pathlib.Path)
    TsSet,          \* spellings of the motl_type option of Motl.write_out offered: subset of {"emmotl", "EMMOTL", "EmMotl"}
    LtSet,          \* motl_type of Motl.load: subset of {"omitted", "emmotl"}
    HdrSet,         \* header arguments offered to the EmMotl write path: subset of {"absent", "none", "empty", "other"}
    SwapPos,        \* column positions offered to SwapCols
    MaxDepth,
    EmitMode,       \* "none" | "hist" (complete behaviours through the hist variable)
    Writer          \* "byname" | "positional"

VARIABLES tbl, der, disk, src, mem, op, d, hist
vars == <<tbl, der, disk, src, mem, op, d, hist>>

W == Len(Canon)
Fields == {Canon[k] : k \in 1..W}

-----------------------------------------------------------------------------
\* values
Raw(t) == [k |-> "raw", t |-> t]
Hole == [k |-> "hole", t |-> 0]
Zero == [k |-> "zero", t |-> 0]
Num(n) == [k |-> "num", t |-> n]          \* a small non-negative integer written by a public method (a new identifier, a class)
\* what lands in a float32 file / comes back from it: holes become 0, float64 tokens are narrowed, float32 stays
F32(v) == CASE v.k = "hole" -> Zero
            [] v.k = "raw"  -> [k |-> "f32", t |-> v.t]
            [] OTHER        -> v

-----------------------------------------------------------------------------
\* tables
NoTable == [order |-> <<>>, cells |-> <<>>]
NoFile == [dims |-> <<0, 0, 0>>, mode |-> "none", payload |-> <<>>]

NRows(T) == Len(T.cells)
Pos(order, f) == CHOOSE i \in 1..Len(order) : order[i] = f
Cell(T, r, f) == T.cells[r][Pos(T.order, f)]

IsTable(T) == /\ Len(T.order) = W
              /\ {T.order[i] : i \in 1..W} = Fields
              /\ NRows(T) >= 1
              /\ \A r \in 1..NRows(T) : Len(T.cells[r]) = W

SwapSeq(s, i, j) == [s EXCEPT ![i] = s[j], ![j] = s[i]]
SwapT(T, i, j) == [order |-> SwapSeq(T.order, i, j),
                   cells |-> [r \in 1..NRows(T) |-> SwapSeq(T.cells[r], i, j)]]

\* the same particles with the columns put in canonical order
Canonical(T) == LET pos == [k \in 1..W |-> Pos(T.order, Canon[k])]
                IN  [order |-> Canon, cells |-> [r \in 1..NRows(T) |-> [k \in 1..W |-> T.cells[r][pos[k]]]]]

-----------------------------------------------------------------------------
\* the file: array shape <<1, N, 20>> = header (nx, ny, nz) = (20, N, 1), float32, x (the field index) fastest
Encode(T) == LET n == NRows(T)
                 pos == [k \in 1..W |-> IF Writer = "byname" THEN Pos(T.order, Canon[k]) ELSE k]
             IN  [dims |-> <<W, n, 1>>, mode |-> "f32",
                  payload |-> [q \in 1..(n * W) |-> F32(T.cells[(q - 1) \div W + 1][pos[((q - 1) % W) + 1]])]]

IsMotlFile(D) == D.mode = "f32" /\ D.dims[1] = W /\ D.dims[3] = 1 /\ Len(D.payload) = D.dims[1] * D.dims[2]

\* reading assigns the canonical names to the 20 values of each particle, in file order
Decode(D) == [order |-> Canon,
              cells |-> [r \in 1..D.dims[2] |-> [k \in 1..W |-> D.payload[(r - 1) * W + k]]]]

-----------------------------------------------------------------------------
\* wire format of values and tables for the drivers: Raw(t) -> t, F32 image of t -> -t, Zero -> 0, Hole -> HoleCode
HoleCode == 1000000
NumBase == 2000000
VJ(v) == CASE v.k = "raw" -> v.t [] v.k = "f32" -> 0 - v.t [] v.k = "zero" -> 0 [] v.k = "num" -> NumBase + v.t [] OTHER -> HoleCode
TJ(T) == [order |-> T.order, cells |-> [r \in 1..NRows(T) |-> [i \in 1..Len(T.cells[r]) |-> VJ(T.cells[r][i])]]]
DJ(D) == [dims |-> D.dims, mode |-> D.mode, payload |-> [q \in 1..Len(D.payload) |-> VJ(D.payload[q])]]

-----------------------------------------------------------------------------
Step(o) == /\ op' = o
           /\ d' = d + 1
           /\ hist' = IF EmitMode = "hist" THEN Append(hist, [op |-> o, tbl |-> tbl', der |-> der', disk |-> disk', mem |-> mem']) ELSE hist

\* re-building the list from the same table with two columns exchanged (generates every column order)
SwapCols(i, j) == /\ "swap" \in Ops
                  /\ tbl' = SwapT(tbl, i, j)
                  /\ UNCHANGED <<der, disk, src, mem>>
                  /\ Step([name |-> "swap", i |-> i, j |-> j])

\* Motl(df).write_out(path, "emmotl")  and  EmMotl(df [, header = h]).write_out(path).
\* An EmMotl object may carry an EM header: h = "absent" (argument not given), "none", "empty" ({}), or "other": the
\* header of another motive-list file, one with hn # N particles (read a list, filter or extend it, write it with the
\* original header).  The file that is written describes the list that is written: the header argument is immaterial.
OtherN(n) == IF n = 1 THEN 3 ELSE IF n % 2 = 0 THEN n - 1 ELSE n + 2
\* pf is the form of the file-name argument, ts the spelling of the motl_type option (Motl.write_out lower-cases it);
\* neither enters the outcome.
WriteVia(path, h, pf, ts) ==
                     /\ path \in Ops
                     /\ path = "write_motl" => h = "absent"
                     /\ (path = "write_motl") = (ts # "na")
                     /\ disk' = Encode(tbl)
                     /\ src' = tbl
                     /\ UNCHANGED <<tbl, der, mem>>
                     /\ Step([name |-> path, hdr |-> h, hn |-> IF h = "other" THEN OtherN(NRows(tbl)) ELSE 0,
                              pf |-> pf, ts |-> ts])

\* the number of particles of the list at hand changes (the list is filtered / extended) before it is written
DropRow(r) == /\ "droprow" \in Ops
              /\ NRows(tbl) >= 2
              /\ tbl' = [tbl EXCEPT !.cells = [k \in 1..(NRows(tbl) - 1) |-> IF k < r THEN tbl.cells[k] ELSE tbl.cells[k + 1]]]
              /\ UNCHANGED <<der, disk, src, mem>>
              /\ Step([name |-> "droprow", r |-> r])
DupRows == /\ "duprows" \in Ops
           /\ NRows(tbl) <= 3
           /\ tbl' = [tbl EXCEPT !.cells = tbl.cells \o tbl.cells]
           /\ UNCHANGED <<der, disk, src, mem>>
           /\ Step([name |-> "duprows"])

\* Motl.load(path)
Load(pf, lt) ==
        /\ "load" \in Ops
        /\ IsMotlFile(disk)
        /\ mem' = Decode(disk)
        /\ UNCHANGED <<tbl, der, disk, src>>
        /\ Step([name |-> "load", pf |-> pf, lt |-> lt])

\* go on working with the list that was loaded
Adopt == /\ "adopt" \in Ops
         /\ mem # NoTable
         /\ mem # tbl
         /\ tbl' = mem
         /\ UNCHANGED <<der, disk, src, mem>>
         /\ Step([name |-> "adopt"])

\* ---- a second list object derived from the list at hand: EmMotl(EmMotl), Motl.load(object), EmMotl(object.df).
\* The derived object holds the same particles and shares no state with its source: editing either in place through
\* a public method (renumber_particles: subtomogram numbers 1..N; fill({"class": 5})) leaves the other what it was.
\* The EmMotl constructor replaces missing values by 0 (Filled); Motl.load(object) is a deep copy.  The copy constructor
\* EmMotl(EmMotl) needs the list at hand to be an EmMotl - whose table, therefore, has no missing values either.
Filled(T) == [T EXCEPT !.cells = [r \in 1..NRows(T) |-> [i \in 1..Len(T.cells[r]) |->
                                     IF T.cells[r][i].k = "hole" THEN Zero ELSE T.cells[r][i]]]]
RenumField == IF W = 20 THEN "subtomo_id" ELSE Canon[1]
FillField == IF W = 20 THEN "class" ELSE Canon[W]
SetCol(T, f, V(_)) == LET p == Pos(T.order, f)
                      IN  [T EXCEPT !.cells = [r \in 1..NRows(T) |-> [T.cells[r] EXCEPT ![p] = V(r)]]]
EditT(T, kind) == IF kind = "renumber" THEN LET V(r) == Num(r) IN SetCol(T, RenumField, V)
                  ELSE LET V(r) == Num(5) IN Filled(SetCol(T, FillField, V))      \* (Motl.fill ends with fillna(0.0))

Derive(form) == /\ "derive" \in Ops
                /\ der' = IF form = "load_object" THEN tbl ELSE Filled(tbl)
                /\ tbl' = IF form = "emmotl_of_emmotl" THEN Filled(tbl) ELSE tbl
                /\ UNCHANGED <<disk, src, mem>>
                /\ Step([name |-> "derive", form |-> form])
EditDerived(kind) == /\ "edit_derived" \in Ops
                     /\ der # NoTable
                     /\ der' = EditT(der, kind)
                     /\ der' # der
                     /\ UNCHANGED <<tbl, disk, src, mem>>
                     /\ Step([name |-> "edit_derived", kind |-> kind])
EditSource(kind) == /\ "edit_source" \in Ops
                    /\ der # NoTable
                    /\ tbl' = EditT(tbl, kind)
                    /\ tbl' # tbl
                    /\ UNCHANGED <<der, disk, src, mem>>
                    /\ Step([name |-> "edit_source", kind |-> kind])
WriteDerived(pf) == /\ "write_derived" \in Ops
                    /\ der # NoTable
                    /\ disk' = Encode(der)
                    /\ src' = der
                    /\ UNCHANGED <<tbl, der, mem>>
                    /\ Step([name |-> "write_derived", pf |-> pf])
DeriveForms == {"emmotl_of_emmotl", "load_object", "emmotl_of_table"}

Init == /\ tbl \in InitTables
        /\ disk = NoFile
        /\ src = NoTable
        /\ mem = NoTable
        /\ der = NoTable
        /\ op = [name |-> "init"]
        /\ d = 0
        /\ hist = IF EmitMode = "hist" THEN <<[op |-> [name |-> "init"], tbl |-> tbl, der |-> der, disk |-> disk, mem |-> mem]>> ELSE <<>>

Next == /\ d < MaxDepth
        /\ \/ \E i, j \in SwapPos : i < j /\ SwapCols(i, j)
           \/ \E pf \in PfSet, ts \in TsSet : WriteVia("write_motl", "absent", pf, ts)
           \/ \E h \in HdrSet, pf \in PfSet : WriteVia("write_emmotl", h, pf, "na")
           \/ \E r \in 1..NRows(tbl) : DropRow(r)
           \/ DupRows
           \/ \E pf \in PfSet, lt \in LtSet : Load(pf, lt)
           \/ \E form \in DeriveForms : Derive(form)
           \/ \E kind \in {"renumber", "fillclass"} : EditDerived(kind) \/ EditSource(kind)
           \/ \E pf \in PfSet : WriteDerived(pf)
           \/ Adopt

Spec == Init /\ [][Next]_vars

-----------------------------------------------------------------------------
\* Property clauses (C01)

IsWrite(o) == o.name \in {"write_motl", "write_emmotl"}

\* the file written from a table: shape <<1, N, 20>>, float32, field order score, geom1, ..., class; holes are 0
C01_FileLayout ==
    [][IsWrite(op') =>
          /\ disk'.dims = <<W, NRows(tbl), 1>>
          /\ disk'.mode = "f32"
          /\ Len(disk'.payload) = W * NRows(tbl)
          /\ \A r \in 1..NRows(tbl) : \A k \in 1..W :
                 disk'.payload[(r - 1) * W + k] = F32(Cell(tbl, r, Canon[k]))]_vars

\* loading what was written: same particles, same order, every named field the F32 image, no hole left
C01_RoundTrip ==
    [][op'.name = "load" /\ src # NoTable =>
          /\ {mem'.order[i] : i \in 1..Len(mem'.order)} = Fields
          /\ NRows(mem') = NRows(src)
          /\ \A r \in 1..NRows(src) : \A f \in Fields :
                 /\ Cell(mem', r, f) = F32(Cell(src, r, f))
                 /\ Cell(mem', r, f).k \in {"f32", "zero", "num"}]_vars

\* whatever the column order of the table: exchanging columns never changes the file ...
C01_OrderIrrelevantStep == [][op'.name = "swap" => Encode(tbl') = Encode(tbl) /\ Canonical(tbl') = Canonical(tbl)]_vars
\* ... and every table writes the file of its canonically ordered twin
C01_OrderIrrelevant == Encode(tbl) = Encode(Canonical(tbl))

\* both write paths, and every header argument, produce the same document (a function of the table alone)
\* frame conditions of the calls: writing does not change the list that is written (the caller's table is an argument,
\* not a result), and a list that was loaded stays what it was whatever is called afterwards, until the next load
C01_WriteKeepsTable == [][IsWrite(op') => tbl' = tbl]_vars
C01_ResultsPersist == [][op'.name # "load" => mem' = mem]_vars

\* list objects do not share state: deriving leaves the source alone and hands out the same particles; editing the
\* derived object leaves the source what it was, and the other way round; the derived object writes what IT holds
C01_ObjectsIndependent ==
    [][/\ op'.name = "derive" => Encode(der') = Encode(tbl) /\ Encode(tbl') = Encode(tbl) /\ Filled(der') = Filled(tbl)
       /\ op'.name = "edit_derived" => tbl' = tbl
       /\ op'.name = "edit_source" => der' = der
       /\ op'.name = "write_derived" => disk' = Encode(der) /\ tbl' = tbl /\ der' = der]_vars

C01_PathsAgree == [][IsWrite(op') => disk' = Encode(Canonical(tbl))]_vars

\* writing what was loaded reproduces the file (float32 values are their own rounding)
C01_Idempotent == IsMotlFile(disk) => Encode(Decode(disk)) = disk

TypeOK == /\ IsTable(tbl)
          /\ der = NoTable \/ IsTable(der)
          /\ disk = NoFile \/ IsMotlFile(disk)
          /\ mem = NoTable \/ IsTable(mem)
          /\ d \in 0..MaxDepth

-----------------------------------------------------------------------------
\* emission
\* transition emission (ACTION_CONSTRAINT EmitStep), restricted to what each step reads and writes;
\* writes over an existing file are pruned (the write action does not read the file)
NoRewrite == ~(IsWrite(op') /\ disk # NoFile)
PreJ(o) == CASE IsWrite(o) -> [tbl |-> TJ(tbl)]
             [] o.name = "load" -> [disk |-> DJ(disk)]
             [] o.name \in {"swap", "droprow", "duprows"} -> [tbl |-> TJ(tbl)]
             [] OTHER -> [mem |-> TJ(mem)]
PostJ(o) == CASE IsWrite(o) -> [disk |-> DJ(disk'), tbl_unchanged |-> (tbl' = tbl)]
              [] o.name = "load" -> [mem |-> TJ(mem')]
              [] OTHER -> [tbl |-> TJ(tbl')]
EmitStep == /\ NoRewrite
            /\ PrintT(ToJson([pre |-> PreJ(op'), op |-> op', post |-> PostJ(op')]))

EmitHist == \/ EmitMode # "hist"
            \/ d < MaxDepth
            \/ PrintT(ToJson([hist |-> [i \in 1..Len(hist) |->
                    [op |-> hist[i].op,
                     post |-> [tbl |-> TJ(hist[i].tbl), der |-> TJ(hist[i].der), disk |-> DJ(hist[i].disk), mem |-> TJ(hist[i].mem)]]]]))

\* ACTION_CONSTRAINT for the route run: write, load, go on with the loaded list, filter / extend it, let it write itself
RouteOnly == CASE d = 0 -> IsWrite(op')
               [] d = 1 -> op'.name = "load"
               [] d = 2 -> op'.name = "adopt"
               [] d = 3 -> op'.name \in {"droprow", "duprows"}
               [] OTHER -> op'.name = "write_emmotl"

\* ACTION_CONSTRAINT for the derive run: derive a second object, edit one of the two, write one of the two, load
DeriveOnly == CASE d = 0 -> op'.name = "derive"
                [] d = 1 -> op'.name \in {"edit_derived", "edit_source"}
                [] d = 2 -> op'.name \in {"write_emmotl", "write_derived"}
                [] OTHER -> op'.name = "load"
EmitDeriveHist == IF d < MaxDepth THEN TRUE ELSE IF op.name = "load" THEN EmitHist ELSE FALSE

\* CONSTRAINT of the route run: only complete routes are printed
EmitRouteHist == IF d < MaxDepth THEN TRUE ELSE IF op.name = "write_emmotl" THEN EmitHist ELSE FALSE

View == <<tbl, der, disk, src, mem>>
=============================================================================

--------------------------- MODULE RotGeomTrace ---------------------------
(***************************************************************************)
(* C06, code -> spec.  cryocat.geom is run on arbitrary real rotations     *)
(* (random, near-identical, antipodal, gimbal lock, 45-degree Euler        *)
(* lattice, equal rotations given by different Euler triples) and on real  *)
(* normals of any length.  The driver records one event per measured       *)
(* pair / triple / batch; every angle is logged in units of 1e-4 degree    *)
(* (NaN or a non-finite value as NaNCode), vector residuals in units of    *)
(* 1e-9.  The relations between the inputs that the clauses refer to - the *)
(* rotation angle of the relative rotation (gt) and the angle between the  *)
(* z-axes (zgt) - are logged from the driver's own matrix route.           *)
(* This module decides every clause of RotGeom.tla on those records:       *)
(*   AngDist = angle of the relative rotation, range, symmetry, zero for   *)
(*   equal rotations, invariance under a common rotation on either side,   *)
(*   triangle inequality, ConeDist = z-axis angle, in-plane distance in    *)
(*   range and zero for equal orientations, normals unit z-images, Euler   *)
(*   angles from normals have the normalised normal as z-axis.             *)
(* Many traces are validated in one run: the initial states are trace ids. *)
(***************************************************************************)
EXTENDS Integers, Sequences, TLC, Json, IOUtils

CONSTANTS AngTol,     \* tolerance on angles, units of 1e-4 degree
          VecTol      \* tolerance on vector components, units of 1e-9

Traces == ndJsonDeserialize(IOEnv.TRACE_FILE)

VARIABLES tid, l, ok, clause, field
vars == <<tid, l, ok, clause, field>>

Events == Traces[tid].ev

HalfTurn == 1800000
NaNCode == -1000000000

Abs(n) == IF n < 0 THEN -n ELSE n
InRange(x) == x >= 0 /\ x <= HalfTurn
Near(x, y) == Abs(x - y) <= AngTol

AllIn(seq, P(_)) == \A i \in DOMAIN seq : P(seq[i])

None == [clause |-> "none", field |-> "none"]
F(c, f) == [clause |-> c, field |-> f]

\* ---- pair event: the first clause it breaks ----
PairFailing(e) ==
    LET Rng(x) == InRange(x)
        Gt(x)  == Near(x, e.gt)
        Ab(x)  == Near(x, e.ang[1])
        Zg(x)  == InRange(x) /\ Near(x, e.zgt)
        Zero(x) == x >= 0 /\ x <= AngTol
    IN
    IF ~AllIn(e.ang, Rng) THEN F("C06_AngDistRange", "ang")
    ELSE IF ~Rng(e.ang_ba) THEN F("C06_AngDistRange", "ang_ba")
    ELSE IF ~Rng(e.ang_aa) THEN F("C06_AngDistRange", "ang_aa")
    ELSE IF ~Rng(e.ang_bb) THEN F("C06_AngDistRange", "ang_bb")
    ELSE IF ~Rng(e.ang_l) THEN F("C06_AngDistRange", "ang_l")
    ELSE IF ~Rng(e.ang_r) THEN F("C06_AngDistRange", "ang_r")
    ELSE IF ~AllIn(e.ang, Gt) THEN F("C06_AngDistIsRelativeAngle", "ang")
    ELSE IF ~Ab(e.ang_ba) THEN F("C06_AngDistSymmetric", "ang_ba")
    ELSE IF ~Zero(e.ang_aa) THEN F("C06_AngDistZeroIffEqual", "ang_aa")
    ELSE IF ~Zero(e.ang_bb) THEN F("C06_AngDistZeroIffEqual", "ang_bb")
    ELSE IF e.same /\ ~AllIn(e.ang, Zero) THEN F("C06_AngDistZeroIffEqual", "ang")
    ELSE IF e.gt > 2 * AngTol /\ ~(\A i \in DOMAIN e.ang : e.ang[i] > 0) THEN F("C06_AngDistZeroIffEqual", "ang")
    ELSE IF ~Ab(e.ang_l) THEN F("C06_AngDistInvariant", "ang_l")
    ELSE IF ~Ab(e.ang_r) THEN F("C06_AngDistInvariant", "ang_r")
    ELSE IF ~AllIn(e.cone, Zg) THEN F("C06_ConeIsZAxisAngle", "cone")
    ELSE IF ~Zero(e.cone_aa) THEN F("C06_ConeIsZAxisAngle", "cone_aa")
    ELSE IF ~AllIn(e.ip, Rng) THEN F("C06_InPlaneRange", "ip")
    ELSE IF ~Zero(e.ip_aa) THEN F("C06_InPlaneZeroOnEqual", "ip_aa")
    ELSE IF ~Zero(e.ip_bb) THEN F("C06_InPlaneZeroOnEqual", "ip_bb")
    ELSE IF e.same /\ ~AllIn(e.ip, Zero) THEN F("C06_InPlaneZeroOnEqual", "ip")
    ELSE None

\* ---- triple event: triangle inequality on the reported distances ----
TripleFailing(e) ==
    IF ~(InRange(e.dab) /\ InRange(e.dbc) /\ InRange(e.dac)) THEN F("C06_AngDistRange", "triple")
    ELSE IF e.dac > e.dab + e.dbc + AngTol THEN F("C06_Triangle", "dac")
    ELSE IF e.dab > e.dac + e.dbc + AngTol THEN F("C06_Triangle", "dab")
    ELSE IF e.dbc > e.dab + e.dac + AngTol THEN F("C06_Triangle", "dbc")
    ELSE None

\* ---- batch event: n pairs measured by ONE call of each entry point on (n,3) Euler arrays / n-element Rotations ----
\* e.ang, e.cone, e.ip are sequences of result vectors (one per entry point and input form); every vector must have one
\* value per pair and each value must satisfy the single-pair clauses against that pair's gt / zgt
BatchFailing(e) ==
    LET OkLen(v) == Len(v) = e.n
        AngOk(v) == \A i \in DOMAIN v : InRange(v[i]) /\ Near(v[i], e.gt[i])
        ConeOk(v) == \A i \in DOMAIN v : InRange(v[i]) /\ Near(v[i], e.zgt[i])
        IpOk(v) == \A i \in DOMAIN v : InRange(v[i])
    IN
    IF ~e.frame_ok THEN F("C06_InputsUntouched", "frame")        \* arguments changed / an earlier result changed later
    ELSE IF Len(e.gt) # e.n \/ Len(e.zgt) # e.n THEN F("C06_OnePerPair", "gt")
    ELSE IF ~AllIn(e.ang, OkLen) THEN F("C06_OnePerPair", "ang")
    ELSE IF ~AllIn(e.cone, OkLen) THEN F("C06_OnePerPair", "cone")
    ELSE IF ~AllIn(e.ip, OkLen) THEN F("C06_OnePerPair", "ip")
    ELSE IF ~AllIn(e.ang, AngOk) THEN F("C06_AngDistIsRelativeAngle", "ang")
    ELSE IF ~AllIn(e.cone, ConeOk) THEN F("C06_ConeIsZAxisAngle", "cone")
    ELSE IF ~AllIn(e.ip, IpOk) THEN F("C06_InPlaneRange", "ip")
    ELSE None

\* ---- history event: every function of the property is a function of its arguments only.  The same pair is measured,
\* another public function of the module is called with documented non-default options (sphere radius, symmetry,
\* radians, other conventions, output order), and the pair is measured again: the two flattened observation vectors must
\* be identical.  (The two measurements are also ordinary pair events of the trace.) ----
HistoryFailing(e) == IF e.before # e.after THEN F("C06_CallHistoryIndependent", "after") ELSE None

\* ---- normals events ----
Small(x) == x >= 0 /\ x <= VecTol

NormalsFailing(e) ==
    IF e.rows # e.n \/ e.cols # 3 \/ Len(e.norm) # e.n \/ Len(e.dev) # e.n THEN F("C06_NormalsAreUnitZImages", "shape")
    ELSE IF ~AllIn(e.norm, Small) THEN F("C06_NormalsAreUnitZImages", "norm")
    ELSE IF ~AllIn(e.dev, Small) THEN F("C06_NormalsAreUnitZImages", "dev")
    ELSE None

ToNormalFailing(e) ==
    IF e.rows # e.n \/ e.cols # 3 \/ Len(e.dev) # e.n THEN F("C06_EulerFromNormalHasThatZAxis", "shape")
    ELSE IF ~AllIn(e.dev, Small) THEN F("C06_EulerFromNormalHasThatZAxis", "dev")
    ELSE None

Failing(e) == CASE e.kind = "pair" -> PairFailing(e)
                [] e.kind = "triple" -> TripleFailing(e)
                [] e.kind = "batch" -> BatchFailing(e)
                [] e.kind = "history" -> HistoryFailing(e)
                [] e.kind = "normals" -> NormalsFailing(e)
                [] e.kind = "tonormal" -> ToNormalFailing(e)

TraceInit == /\ tid \in 1..Len(Traces)
             /\ l = 1
             /\ ok = TRUE
             /\ clause = "none"
             /\ field = "none"

TraceNext == /\ ok
             /\ l <= Len(Events)
             /\ LET c == Failing(Events[l]) IN ok' = (c.clause = "none") /\ clause' = c.clause /\ field' = c.field
             /\ l' = l + 1
             /\ UNCHANGED tid

TraceSpec == TraceInit /\ [][TraceNext]_vars

Report == \/ (ok /\ l <= Len(Events))
          \/ PrintT(<<"VERDICT", ToJson([tid |-> tid, ok |-> ok, clause |-> clause, field |-> field, step |-> l - 1])>>)
=============================================================================

---------------------------- MODULE MapGeomTrace ----------------------------
(***************************************************************************)
(* C14, code -> spec.  cryomap.rotate and cryomap.symmetrize_volume run on *)
(* smooth real-valued maps and arbitrary (non-lattice) rotations, where    *)
(* the lattice specification MapGeom.tla cannot give voxel values.  The    *)
(* driver records integer-scaled observations of what MapGeom's clauses    *)
(* imply for such maps:                                                    *)
(*  "rotblob"  a Gaussian blob at offset v from the box centre floor(N/2)  *)
(*             is rotated by R: com = distance between the centre of mass  *)
(*             of the result and c + R v (1e-4 voxel) - the active         *)
(*             convention RotTarget;  back = correlation between the       *)
(*             original and the result rotated by the inverse (1e-6) -     *)
(*             C14_LawInverseRestores on a smooth map;  anti = distance of *)
(*             the centre of mass from the passive alternative c + R^-1 v  *)
(*             (only logged, to show that the case discriminates)          *)
(*  "sym"      symmetrize_volume(map, n), n in 2..12, on a sum of blobs    *)
(*             inside the inscribed cylinder: inv = correlation between    *)
(*             the result and its rotation by 360/n (1e-6), dens =         *)
(*             |sum(result) - sum(map)| / sum(map) (1e-6)                  *)
(*  "dtype"    a map is a function from voxels to values; how the values are  *)
(*             stored (int8, int16, bool, float32, float64) is not part of  *)
(*             it.  The same integer-valued map is rotated by a generic     *)
(*             rotation in every storage type: rot[i] = largest deviation   *)
(*             from the float64 result relative to the value range (1e-6);  *)
(*             the same template is placed for the same particle list:      *)
(*             place[i] = number of container voxels that differ from the   *)
(*             float64 container;  stamped = voxels stamped at all          *)
(*  "grey"     placement of a grey-valued template at generic orientations:   *)
(*             Place = stamp the ROTATED, then THRESHOLDED template.        *)
(*             single_list = container voxels that differ between the       *)
(*             single-template and the one-template-per-particle form;      *)
(*             single_rot[i] / list_rot[i] = voxels of particle i's window  *)
(*             (MapGeom!WStart) that differ from rotate(template, R_i) cut  *)
(*             at the threshold, plus stamped voxels outside that window    *)
(*  args_ok    (rotblob, grey) the caller's array arguments - reused for    *)
(*             the following calls - are bit for bit unchanged: MapGeom's   *)
(*             actions leave inp unchanged (C14_InputsUntouched)            *)
(* Interpolation accuracy is not decided, only bounded: the thresholds are *)
(* constants of the configuration (DESIGN section 4, C14).                 *)
(***************************************************************************)
EXTENDS Integers, Sequences, TLC, Json, IOUtils

CONSTANTS SmallTol,     \* 1e-6 of the blob height: small-rotation accuracy
          DtypeTol,     \* 1e-6 of the value range
          ComTol,       \* 1e-4 voxel
          BackMin,      \* 1e-6 correlation
          SymMin,       \* 1e-6 correlation
          DensTol       \* 1e-6 relative

Traces == ndJsonDeserialize(IOEnv.TRACE_FILE)

VARIABLES tid, l, ok, clause
vars == <<tid, l, ok, clause>>

Events == Traces[tid].ev

\* small non-zero rotations (0.05 .. 2 degree) are rotations like any other: a unit-height Gaussian blob at offset v from the
\* centre must come out as the analytic blob at R v (err = largest voxel deviation, 1e-6), and the inverse rotation must
\* bring the original back (back); moved = |R v - v| in 1e-4 voxel is logged to show what skipping the rotation would cost
SmallRotFailing(e) == IF e.err < 0 \/ e.err > SmallTol THEN "C14_SmallRotationApplied"
                      ELSE IF e.back < 0 \/ e.back > 2 * SmallTol THEN "C14_InverseRestores"
                      ELSE "none"

GreyFailing(e) == IF ~e.args_ok THEN "C14_InputsUntouched"
                  ELSE IF e.single_list # 0 THEN "C14_TemplateFormsAgree"
                  ELSE IF \E i \in DOMAIN e.single_rot : e.single_rot[i] # 0 THEN "C14_PlaceIsRotateThenThreshold"
                  ELSE IF \E i \in DOMAIN e.list_rot : e.list_rot[i] # 0 THEN "C14_PlaceIsRotateThenThreshold"
                  ELSE IF e.stamped <= 0 THEN "C14_PlaceStamps"
                  ELSE "none"

RotFailing(e) == IF ~e.args_ok THEN "C14_InputsUntouched"
                 ELSE IF e.com < 0 \/ e.com > ComTol THEN "C14_ActiveConvention"
                 ELSE IF e.back < BackMin THEN "C14_InverseRestores"
                 ELSE "none"

SymFailing(e) == IF e.inv < SymMin THEN "C14_SymInvariant"
                 ELSE IF e.dens < 0 \/ e.dens > DensTol THEN "C14_SymKeepsDensity"
                 ELSE "none"

DtypeFailing(e) == IF \E i \in DOMAIN e.rot : e.rot[i] < 0 \/ e.rot[i] > DtypeTol THEN "C14_StorageTypeIndependentRotation"
                   ELSE IF \E i \in DOMAIN e.place : e.place[i] # 0 THEN "C14_StorageTypeIndependentPlacement"
                   ELSE IF e.stamped <= 0 THEN "C14_PlaceStamps"
                   ELSE "none"

Failing(e) == CASE e.kind = "rotblob" -> RotFailing(e)
                [] e.kind = "dtype" -> DtypeFailing(e)
                [] e.kind = "grey" -> GreyFailing(e)
                [] e.kind = "smallrot" -> SmallRotFailing(e)
                [] e.kind = "sym" -> SymFailing(e)

TraceInit == /\ tid \in 1..Len(Traces)
             /\ l = 1
             /\ ok = TRUE
             /\ clause = "none"

TraceNext == /\ ok
             /\ l <= Len(Events)
             /\ LET c == Failing(Events[l]) IN ok' = (c = "none") /\ clause' = c
             /\ l' = l + 1
             /\ UNCHANGED tid

TraceSpec == TraceInit /\ [][TraceNext]_vars

Report == \/ (ok /\ l <= Len(Events))
          \/ PrintT(<<"VERDICT", ToJson([tid |-> tid, ok |-> ok, clause |-> clause, step |-> l - 1])>>)
=============================================================================

------------------------------ MODULE MapGeom ------------------------------
(***************************************************************************)
(* C14 - map rotation, placement, windowing, symmetrisation on the voxel   *)
(* lattice.                                                                *)
(*                                                                         *)
(* A map is a function from a 0-based index box to value tokens; here the  *)
(* token of a voxel is its own index, so an operation is described by      *)
(* "which source voxel does every decided result voxel take its value      *)
(* from".  Rotations are elements of the cube group: they permute lattice  *)
(* points about the box centre c = floor(N/2) exactly.                     *)
(*                                                                         *)
(*  Rotate(vol, R)[c + R v] = vol[c + v]      (active convention) for all  *)
(*      offsets v with source and target at least one voxel from each face *)
(*  Place   stamps the rotated, thresholded template of every pose at      *)
(*      (complete position - 1) with the pose's colour, in list order      *)
(*  Window  the requested box around an integral centre, even shape;       *)
(*      voxels outside the volume carry the Mean token                     *)
(*  Sym     mean of the n copies rotated by multiples of 360/n about z     *)
(*                                                                         *)
(* "Pure function" idiom: Init picks the input, one action computes the    *)
(* output; transitions are emitted as JSON for the driver (L2).            *)
(***************************************************************************)
EXTENDS Integers, Sequences, FiniteSets, TLC, Json, Cube

CONSTANTS
    RotCases,       \* set of [dims, R]
    PlaceCases,     \* set of [cdims, tmpl, poses]; with a further field u: complete positions in units of 1/u voxel
                    \* (fractional positions) and template boxes of either parity
    PlaceListCases, \* set of [cdims, tmpls, poses]: one template per pose (input_object given as a list)
    WindowCases,    \* set of [vdims, centre, shape]; with a further field u: centre in units of 1/u voxel, any shape parity
    SymCases,       \* set of [dims, n]
    EmitMode        \* "none" | "tr"

VARIABLES kind, inp, out, d
vars == <<kind, inp, out, d>>

-----------------------------------------------------------------------------
\* index boxes (0-based)

Add(u, v) == [i \in 1..3 |-> u[i] + v[i]]
Sub(u, v) == [i \in 1..3 |-> u[i] - v[i]]

Centre(dims) == [i \in 1..3 |-> dims[i] \div 2]
Box(dims) == { <<i, j, k>> : i \in 0..(dims[1] - 1), j \in 0..(dims[2] - 1), k \in 0..(dims[3] - 1) }
InBox(x, dims) == \A i \in 1..3 : x[i] >= 0 /\ x[i] < dims[i]
Interior(x, dims) == \A i \in 1..3 : x[i] >= 1 /\ x[i] <= dims[i] - 2
InteriorBox(dims) == { x \in Box(dims) : Interior(x, dims) }

-----------------------------------------------------------------------------
\* rotation

\* where the density of voxel x goes when the map is rotated by R: offset v = x - c becomes R v
RotTarget(x, dims, R) == Add(Centre(dims), Apply(R, Sub(x, Centre(dims))))

\* the decided part of the rotated map: pairs <<destination, source>>
RotPairs(dims, R) == { <<RotTarget(x, dims, R), x>> : x \in { y \in InteriorBox(dims) : Interior(RotTarget(y, dims, R), dims) } }

-----------------------------------------------------------------------------
\* placement
\* template: [S |-> even cubic size, cells |-> sequence of [o |-> offset from the template centre S/2, hi |-> above threshold]]
\* pose:     [pos |-> complete position (1-based, integral), R |-> orientation, colour |-> value of the colouring field]

\* the displacement a reference offset o receives from a particle of orientation R - the same expression as
\* Pose.tla!ShiftP (shift_positions moves a particle by Apply(R, o))
PoseShift(R, o) == Apply(R, o)

HiOffsets(tmpl) == { tmpl.cells[j].o : j \in { jj \in DOMAIN tmpl.cells : tmpl.cells[jj].hi } }

\* container voxels (0-based, possibly outside the container) stamped by one pose
Stamp(pose, tmpl) == { Add([i \in 1..3 |-> pose.pos[i] - 1], PoseShift(pose.R, o)) : o \in HiOffsets(tmpl) }

\* poses are stamped in list order: the last pose covering a voxel wins
Stamps(tmpl, poses) == [i \in DOMAIN poses |-> Stamp(poses[i], tmpl)]
\* one template per pose
StampsL(tmpls, poses) == [i \in DOMAIN poses |-> Stamp(poses[i], tmpls[i])]
PlacedFrom(cdims, poses, st) ==
    LET Last(x) == CHOOSE i \in DOMAIN poses : x \in st[i] /\ \A j \in DOMAIN poses : j > i => x \notin st[j]
    IN  { <<x, poses[Last(x)].colour>> : x \in { y \in UNION { st[i] : i \in DOMAIN poses } : InBox(y, cdims) } }

Placed(cdims, tmpl, poses) ==
    LET st == Stamps(tmpl, poses)
        Last(x) == CHOOSE i \in DOMAIN poses : x \in st[i] /\ \A j \in DOMAIN poses : j > i => x \notin st[j]
    IN  { <<x, poses[Last(x)].colour>> : x \in { y \in UNION { st[i] : i \in DOMAIN poses } : InBox(y, cdims) } }

\* the complete (1-based) position of each pose after shift_positions(o), for every template offset o
Shifted(tmpl, poses) == [i \in DOMAIN poses |-> [j \in DOMAIN tmpl.cells |-> Add(poses[i].pos, PoseShift(poses[i].R, tmpl.cells[j].o))]]

-----------------------------------------------------------------------------
\* windowing (integral centre, even shape): the window starts at centre - shape/2

WStart(centre, shape) == [i \in 1..3 |-> centre[i] - shape[i] \div 2]
\* per axis: window index (1-based position w) -> volume index, or -1 when outside the volume
AxisMap(vdims, centre, shape, ax) == [w \in 1..shape[ax] |->
        LET s == WStart(centre, shape)[ax] + w - 1 IN IF s >= 0 /\ s < vdims[ax] THEN s ELSE -1]
\* cell-wise meaning: window voxel w (0-based) shows volume voxel start + w, or the Mean token
MeanTok == <<-1, -1, -1>>          \* the token "mean of the volume" (not an index)
WindowCell(vdims, centre, shape, w) == LET s == Add(WStart(centre, shape), w) IN IF InBox(s, vdims) THEN s ELSE MeanTok

\* ---- fractional centres / complete positions (units of 1/u voxel) and boxes of either parity --------------------
\* One rule for both: coordinates are continuous, voxel i covers [i, i+1), a box of S voxels has its centre at S/2;
\* the box is laid down with its centre at the requested coordinate and snapped DOWN to the voxel grid:
\*     start = floor(centre - S/2)                (floor towards minus infinity, also left of voxel 0)
\* For integral centres and even S this is WStart.  (\div is floor division for a positive divisor.)
WStartQ(centre, shape, u) == [i \in 1..3 |-> (2 * centre[i] - u * shape[i]) \div (2 * u)]
AxisMapQ(vdims, centre, shape, u, ax) == [w \in 1..shape[ax] |->
        LET s == WStartQ(centre, shape, u)[ax] + w - 1 IN IF s >= 0 /\ s < vdims[ax] THEN s ELSE -1]
\* the container voxel that receives the template's centre voxel S div 2 (the rotation centre of the template box)
StampBaseQ(pose, tmpl, u) == LET S == tmpl.S
                                 st == WStartQ([i \in 1..3 |-> pose.pos[i] - u], <<S, S, S>>, u)     \* 1-based -> 0-based
                             IN  [i \in 1..3 |-> st[i] + S \div 2]
StampQ(pose, tmpl, u) == { Add(StampBaseQ(pose, tmpl, u), PoseShift(pose.R, o)) : o \in HiOffsets(tmpl) }

-----------------------------------------------------------------------------
\* C_n symmetrisation, n in {1, 2, 4}: rotations by k * 360/n about z are cube rotations (n = 1: the map itself)

ZTurn(n, k) == Pow(Rz1, k * (4 \div n))
\* the source voxel that the k-th rotated copy shows at x
SymSource(x, dims, n, k) == RotTarget(x, dims, Inv(ZTurn(n, k)))
SymDecided(dims, n) == { x \in InteriorBox(dims) : \A k \in 1..n : Interior(SymSource(x, dims, n, k), dims) }
SymPairs(dims, n) == { <<x, [k \in 1..n |-> SymSource(x, dims, n, k)]>> : x \in SymDecided(dims, n) }

-----------------------------------------------------------------------------
\* the state machine

HasUnit(c) == "u" \in DOMAIN c

Init == /\ d = 0
        /\ out = <<>>
        /\ \/ kind = "rotate" /\ inp \in RotCases
           \/ kind = "place"  /\ inp \in { c \in PlaceCases : ~HasUnit(c) }
           \/ kind = "placelist" /\ inp \in PlaceListCases
           \/ kind = "window" /\ inp \in { c \in WindowCases : ~HasUnit(c) }
           \/ kind = "sym"    /\ inp \in SymCases
           \/ kind = "windowq" /\ inp \in { c \in WindowCases : HasUnit(c) }
           \/ kind = "placeq" /\ inp \in { c \in PlaceCases : HasUnit(c) }

Rotate == /\ kind = "rotate" /\ d = 0
          /\ out' = [pairs |-> RotPairs(inp.dims, inp.R)]
          /\ d' = 1 /\ UNCHANGED <<kind, inp>>

Place == /\ kind = "place" /\ d = 0
         /\ out' = [placed |-> Placed(inp.cdims, inp.tmpl, inp.poses), shifted |-> Shifted(inp.tmpl, inp.poses)]
         /\ d' = 1 /\ UNCHANGED <<kind, inp>>

PlaceList == /\ kind = "placelist" /\ d = 0
             /\ out' = [placed |-> PlacedFrom(inp.cdims, inp.poses, StampsL(inp.tmpls, inp.poses))]
             /\ d' = 1 /\ UNCHANGED <<kind, inp>>

Window == /\ kind = "window" /\ d = 0
          /\ out' = [axes |-> [ax \in 1..3 |-> AxisMap(inp.vdims, inp.centre, inp.shape, ax)]]
          /\ d' = 1 /\ UNCHANGED <<kind, inp>>

Symmetrize == /\ kind = "sym" /\ d = 0
              /\ out' = [pairs |-> SymPairs(inp.dims, inp.n)]
              /\ d' = 1 /\ UNCHANGED <<kind, inp>>

WindowQ == /\ kind = "windowq" /\ d = 0
           /\ out' = [axes |-> [ax \in 1..3 |-> AxisMapQ(inp.vdims, inp.centre, inp.shape, inp.u, ax)]]
           /\ d' = 1 /\ UNCHANGED <<kind, inp>>

PlaceQ == /\ kind = "placeq" /\ d = 0
          /\ out' = [placed |-> PlacedFrom(inp.cdims, inp.poses, [i \in DOMAIN inp.poses |-> StampQ(inp.poses[i], inp.tmpl, inp.u)])]
          /\ d' = 1 /\ UNCHANGED <<kind, inp>>

Next == Rotate \/ Place \/ PlaceList \/ Window \/ Symmetrize \/ WindowQ \/ PlaceQ

Spec == Init /\ [][Next]_vars

-----------------------------------------------------------------------------
\* clauses on the reachable states (L1)

Done(kd) == kind = kd /\ d = 1

TypeOK == /\ d \in {0, 1}
          /\ kind = "rotate" => inp.R \in All
          /\ kind = "place" => /\ inp.tmpl.S % 2 = 0
                               /\ \A i \in DOMAIN inp.poses : inp.poses[i].R \in All
                               \* the template support and all its rotated images stay clear of the template faces
                               /\ \A j \in DOMAIN inp.tmpl.cells : \A i \in 1..3 :
                                      inp.tmpl.cells[j].o[i] >= 2 - inp.tmpl.S \div 2 /\ inp.tmpl.cells[j].o[i] <= inp.tmpl.S \div 2 - 2
          /\ kind = "placelist" => /\ Len(inp.tmpls) = Len(inp.poses)
                                   /\ \A i \in DOMAIN inp.poses : inp.poses[i].R \in All /\ inp.tmpls[i].S % 2 = 0
          /\ kind = "window" => \A i \in 1..3 : inp.shape[i] % 2 = 0 /\ inp.shape[i] > 0
          /\ kind = "sym" => inp.n \in {1, 2, 4}
          /\ kind = "windowq" => inp.u > 0 /\ \A i \in 1..3 : inp.shape[i] > 0
          /\ kind = "placeq" => /\ inp.u > 0
                                /\ \A i \in DOMAIN inp.poses : inp.poses[i].R \in All
                                \* support clear of the template faces under every rotation (even box: S/2 - 2, odd: S div 2 - 1)
                                /\ LET b == IF inp.tmpl.S % 2 = 0 THEN inp.tmpl.S \div 2 - 2 ELSE inp.tmpl.S \div 2 - 1 IN
                                   \A j \in DOMAIN inp.tmpl.cells : \A i \in 1..3 : inp.tmpl.cells[j].o[i] >= -b /\ inp.tmpl.cells[j].o[i] <= b

\* every operation is a function of its inputs and leaves them as they are (maps, angle / coordinate / shape arrays,
\* templates, particle lists): the same input object can be used for the next call
C14_InputsUntouched == [][inp' = inp /\ kind' = kind]_vars
\* results are values of their own: once returned they stay what they were (nothing happens after d = 1), and since inp
\* never changes, nothing a caller does with a result can reach an input (the driver edits every returned array in place)
C14_ResultsPersist == [][d = 1 => out' = out]_vars

\* a rotation permutes the decided voxels: no two sources share a destination, sources and destinations are interior,
\* offsets from the centre are carried by R (active), and rotating back with the inverse returns every voxel
C14_RotatePermutesInterior ==
    Done("rotate") => LET back == RotPairs(inp.dims, Inv(inp.R)) IN
                      /\ Cardinality({ p[1] : p \in out.pairs }) = Cardinality(out.pairs)
                      /\ Cardinality({ p[2] : p \in out.pairs }) = Cardinality(out.pairs)
                      /\ \A p \in out.pairs : /\ Interior(p[1], inp.dims) /\ Interior(p[2], inp.dims)
                                              /\ Sub(p[1], Centre(inp.dims)) = Apply(inp.R, Sub(p[2], Centre(inp.dims)))
                                              /\ <<p[2], p[1]>> \in back
                      /\ inp.R = Id => out.pairs = { <<x, x>> : x \in InteriorBox(inp.dims) }

\* every stamped voxel is the 0-based complete position the particle would have after shift_positions(offset)
C14_SameAsPose ==
    Done("place") => \A i \in DOMAIN inp.poses : \A j \in DOMAIN inp.tmpl.cells :
                         inp.tmpl.cells[j].hi =>
                             [a \in 1..3 |-> out.shifted[i][j][a] - 1] \in Stamp(inp.poses[i], inp.tmpl)

C14_PlaceStamps ==
    Done("place") => LET st == Stamps(inp.tmpl, inp.poses)
                         cov(x) == { i \in DOMAIN inp.poses : x \in st[i] }
                         touched == { p[1] : p \in out.placed }
                     IN
                     /\ \A p \in out.placed : /\ InBox(p[1], inp.cdims)
                                              /\ \E i \in cov(p[1]) : p[2] = inp.poses[i].colour
                                              \* a voxel covered by exactly one pose carries that pose's colour
                                              /\ Cardinality(cov(p[1])) = 1 => p[2] = inp.poses[CHOOSE i \in cov(p[1]) : TRUE].colour
                     /\ Cardinality(touched) = Cardinality(out.placed)
                     \* exactly the covered container voxels are touched; everything else stays as it was
                     /\ touched = { x \in UNION { st[i] : i \in DOMAIN inp.poses } : InBox(x, inp.cdims) }
                     \* below-threshold template voxels never stamp
                     /\ \A i \in DOMAIN inp.poses : Cardinality(st[i]) = Cardinality(HiOffsets(inp.tmpl))

\* a list of templates: every pose stamps ITS OWN template (also when several poses share one orientation), and placing
\* the same template for every pose is the single-template placement
C14_PlaceListStamps ==
    Done("placelist") => LET st == StampsL(inp.tmpls, inp.poses)
                             touched == { p[1] : p \in out.placed }
                         IN
                         /\ Len(inp.tmpls) = Len(inp.poses)
                         /\ touched = { x \in UNION { st[i] : i \in DOMAIN inp.poses } : InBox(x, inp.cdims) }
                         /\ Cardinality(touched) = Cardinality(out.placed)
                         /\ \A p \in out.placed : LET cov == { i \in DOMAIN inp.poses : p[1] \in st[i] } IN
                                /\ \E i \in cov : p[2] = inp.poses[i].colour
                                /\ Cardinality(cov) = 1 => p[2] = inp.poses[CHOOSE i \in cov : TRUE].colour
                         /\ \A i \in DOMAIN inp.poses : st[i] = { Add([a \in 1..3 |-> inp.poses[i].pos[a] - 1], Apply(inp.poses[i].R, o))
                                                                : o \in HiOffsets(inp.tmpls[i]) }
                         /\ (\A i \in DOMAIN inp.tmpls : inp.tmpls[i] = inp.tmpls[1]) =>
                                out.placed = Placed(inp.cdims, inp.tmpls[1], inp.poses)

\* the per-axis form agrees with the cell-wise meaning; the in-volume part is the intersection of the two boxes
C14_WindowExact ==
    Done("window") =>
        /\ \A w \in Box(inp.shape) :
              LET cell == WindowCell(inp.vdims, inp.centre, inp.shape, w)
                  viaAxes == [ax \in 1..3 |-> out.axes[ax][w[ax] + 1]]
              IN  IF \A ax \in 1..3 : viaAxes[ax] >= 0 THEN cell = viaAxes ELSE cell = MeanTok
        /\ \A ax \in 1..3 : LET m == out.axes[ax] IN
              /\ Len(m) = inp.shape[ax]
              /\ \A w \in 1..Len(m) : m[w] >= 0 => m[w] - (w - 1) = inp.centre[ax] - inp.shape[ax] \div 2
              /\ Cardinality({ w \in 1..Len(m) : m[w] >= 0 }) =
                   Cardinality((0..(inp.vdims[ax] - 1)) \cap ((inp.centre[ax] - inp.shape[ax] \div 2)..(inp.centre[ax] + inp.shape[ax] \div 2 - 1)))

\* fractional centres: the window start is the unique integer s with  s <= centre/u - S/2 < s + 1  on every axis (also
\* for negative values and beyond the upper face), the in-volume part is the intersection of the two boxes; integral
\* centres with even shapes give WStart
C14_WindowStartRule ==
    Done("windowq") =>
        \A ax \in 1..3 :
            LET s == WStartQ(inp.centre, inp.shape, inp.u)[ax]
                m == out.axes[ax]
            IN  /\ 2 * inp.u * s <= 2 * inp.centre[ax] - inp.u * inp.shape[ax]
                /\ 2 * inp.centre[ax] - inp.u * inp.shape[ax] < 2 * inp.u * (s + 1)
                /\ Len(m) = inp.shape[ax]
                /\ \A w \in 1..Len(m) : m[w] = IF s + w - 1 >= 0 /\ s + w - 1 < inp.vdims[ax] THEN s + w - 1 ELSE -1
                /\ (inp.centre[ax] % inp.u = 0 /\ inp.shape[ax] % 2 = 0) => s = inp.centre[ax] \div inp.u - inp.shape[ax] \div 2

\* fractional complete positions, template boxes of either parity: the template's centre voxel S div 2 lands on the voxel
\* given by the same rule, every other template voxel at its rotated offset from there; integral positions with an even
\* box give Stamp
C14_PlaceFractional ==
    Done("placeq") => LET S == inp.tmpl.S
                          st == [i \in DOMAIN inp.poses |-> StampQ(inp.poses[i], inp.tmpl, inp.u)]
                          touched == { p[1] : p \in out.placed }
                      IN
                      /\ touched = { x \in UNION { st[i] : i \in DOMAIN inp.poses } : InBox(x, inp.cdims) }
                      /\ Cardinality(touched) = Cardinality(out.placed)
                      /\ \A i \in DOMAIN inp.poses : \A a \in 1..3 :
                             LET b == StampBaseQ(inp.poses[i], inp.tmpl, inp.u)[a] - S \div 2
                                 c2 == 2 * (inp.poses[i].pos[a] - inp.u) - inp.u * S
                             IN  2 * inp.u * b <= c2 /\ c2 < 2 * inp.u * (b + 1)
                      /\ \A i \in DOMAIN inp.poses :
                             ((\A a \in 1..3 : inp.poses[i].pos[a] % inp.u = 0) /\ S % 2 = 0) =>
                                 st[i] = Stamp([inp.poses[i] EXCEPT !.pos = [a \in 1..3 |-> inp.poses[i].pos[a] \div inp.u]], inp.tmpl)

\* the symmetrised map is invariant under the rotation by 360/n (same set of sources wherever both voxels are decided)
\* and, on a region closed under that rotation, has the same total density (every source is used n times in n means)
C14_SymInvariant ==
    Done("sym") => LET step == ZTurn(inp.n, 1)
                       Src(x) == LET p == CHOOSE q \in out.pairs : q[1] = x IN { p[2][k] : k \in 1..inp.n }
                       dec == { p[1] : p \in out.pairs }
                       OnAxis(x) == x[1] = Centre(inp.dims)[1] /\ x[2] = Centre(inp.dims)[2]
                       closed == { x \in dec : Src(x) \subseteq dec }
                   IN  /\ \A x \in dec : LET y == RotTarget(x, inp.dims, step) IN y \in dec => Src(y) = Src(x)
                       /\ \A x \in dec : x \in Src(x) /\ Cardinality(Src(x)) = IF OnAxis(x) THEN 1 ELSE inp.n
                       /\ \A s \in closed :
                              Cardinality({ xk \in closed \X (1..inp.n) : SymSource(xk[1], inp.dims, inp.n, xk[2]) = s }) = inp.n

-----------------------------------------------------------------------------
\* laws over the whole group (constant level; asserted in MapGeomLaws.tla)

\* rotating by A and then by B is rotating by B.A (active composition), for every voxel of cubic boxes
C14_LawActiveComposition(N) == LET dims == <<N, N, N>> IN
    \A a, b \in All : \A x \in Box(dims) : RotTarget(RotTarget(x, dims, a), dims, b) = RotTarget(x, dims, Mul(b, a))
C14_LawInverseRestores(N) == LET dims == <<N, N, N>> IN
    \A a \in All : \A x \in Box(dims) : RotTarget(RotTarget(x, dims, a), dims, Inv(a)) = x
\* the centre voxel floor(N/2) is the fixed point
C14_LawCentreFixed(N) == LET dims == <<N, N, N>> IN \A a \in All : RotTarget(Centre(dims), dims, a) = Centre(dims)

-----------------------------------------------------------------------------
\* emission (spec -> code)

PosesJ(ps) == [i \in DOMAIN ps |-> [pos |-> ps[i].pos, r |-> Code(ps[i].R), colour |-> ps[i].colour]]

PJ == CASE kind = "rotate" -> [dims |-> inp.dims, r |-> Code(inp.R)]
        [] kind = "place"  -> [cdims |-> inp.cdims, tmpl |-> inp.tmpl, poses |-> PosesJ(inp.poses)]
        [] kind = "placelist" -> [cdims |-> inp.cdims, tmpls |-> inp.tmpls, poses |-> PosesJ(inp.poses)]
        [] kind = "window" -> inp
        [] kind = "windowq" -> inp
        [] kind = "placeq" -> [cdims |-> inp.cdims, tmpl |-> inp.tmpl, poses |-> PosesJ(inp.poses), u |-> inp.u]
        [] kind = "sym"    -> inp

EmitTR == \/ EmitMode # "tr"
          \/ PrintT(ToJson([kind |-> kind, inp |-> PJ, out |-> out']))
=============================================================================

----------------------------- MODULE PoseArith -----------------------------
(* Unbounded arithmetic core of Pose.tla's UpdateCoordinates, for Apalache (SMT): for EVERY integer complete
   coordinate c (1/8-voxel units) and every split c = x + s, the update yields an integral x' with |s'| <= 1/2 voxel
   and x' + s' = c.  TLC checks the same law on the finite lattice of MC_Pose; this module removes the bound. *)
EXTENDS Integers

VARIABLES
    \* @type: Int;
    x,
    \* @type: Int;
    s

U == 8
Abs(n) == IF n < 0 THEN -n ELSE n
RoundHalfAway(c) == LET a == Abs(c)
                        q == (2 * a + U) \div (2 * U)
                    IN  IF c < 0 THEN -(q * U) ELSE q * U

Init == x \in Int /\ s \in Int

Next == LET c == x + s
            xi == RoundHalfAway(c)
        IN  x' = xi /\ s' = c - xi

\* action-level law, stated on the post-state of one update step from an arbitrary state
UpdateLaw == LET c == x + s
                 xi == RoundHalfAway(c)
             IN  /\ xi % U = 0
                 /\ 2 * Abs(c - xi) <= U
                 /\ xi + (c - xi) = c
                 \* idempotence: updating an updated pose changes nothing
                 /\ RoundHalfAway(xi) = xi
\* negative control (must be refuted by Apalache: at an exact half-voxel tie |s'| equals 1/2, not less)
StrictLaw == LET c == x + s IN 2 * Abs(c - RoundHalfAway(c)) < U
=============================================================================

---------------------------- MODULE StopgapConv ----------------------------
(***************************************************************************)
(* C04 - particle list <-> STOPGAP motive list.                            *)
(*                                                                         *)
(* A particle is a record over the 14 shared fields.  Values are abstract: *)
(*   subtomo_id        an integer (its parity matters)                     *)
(*   x, y, z, shift_*  fixed-point integers in units of 1/U voxel          *)
(*   the other seven   value tokens (integers naming entries of a table    *)
(*                     of reals kept by the driver; distinct per field and *)
(*                     particle, so "which value is where" is decided      *)
(*                     exactly)                                            *)
(* A STOPGAP row is a record over the 16 STOPGAP columns.  The renaming    *)
(* is the one the property documents.                                      *)
(*                                                                         *)
(* Actions: EditLoaded / Reexport  a list created from STOPGAP form is     *)
(*          edited and the OBJECT itself is converted / written again      *)
(*          Export(reset)  in-memory conversion of the list                *)
(*          Import         in-memory conversion of a STOPGAP table         *)
(*          Write(update, reset)  the list as written to a .star file      *)
(*          Load           the file loaded back                            *)
(***************************************************************************)
EXTENDS Integers, Sequences, FiniteSets, TLC, Json

CONSTANTS InitLists,     \* set of admissible initial particle lists
          U,             \* lattice units per voxel
          EmitMode       \* "none" | "tr"

VARIABLES rows,          \* the particle list (sequence of particle records)
          sg,            \* STOPGAP table (sequence of STOPGAP records) or <<>>
          back,          \* particle list obtained from the STOPGAP table / file, or <<>>
          pc, op,
          cid            \* 0, or the number of the seeded case the list came from
vars == <<rows, sg, back, pc, op, cid>>

MotlFields == {"score", "subtomo_id", "tomo_id", "object_id", "x", "y", "z", "shift_x", "shift_y", "shift_z",
               "phi", "psi", "theta", "class"}
SgColumns == <<"motl_idx", "tomo_num", "object", "subtomo_num", "halfset", "orig_x", "orig_y", "orig_z", "score",
               "x_shift", "y_shift", "z_shift", "phi", "psi", "the", "class">>

\* the documented renaming: cryoCAT field -> STOPGAP column
Renaming == [score |-> "score", subtomo_id |-> "subtomo_num", tomo_id |-> "tomo_num", object_id |-> "object",
             x |-> "orig_x", y |-> "orig_y", z |-> "orig_z", shift_x |-> "x_shift", shift_y |-> "y_shift",
             shift_z |-> "z_shift", phi |-> "phi", psi |-> "psi", theta |-> "the", class |-> "class"]
SharedSg == {Renaming[f] : f \in MotlFields}
Back(c) == CHOOSE f \in MotlFields : Renaming[f] = c

ASSUME /\ DOMAIN Renaming = MotlFields /\ Cardinality(MotlFields) = 14 /\ Cardinality(SharedSg) = 14
       /\ SharedSg \cup {"motl_idx", "halfset"} = {SgColumns[i] : i \in 1..Len(SgColumns)}

Abs(n) == IF n < 0 THEN -n ELSE n
RoundHalfAway(c) == LET q == (2 * Abs(c) + U) \div (2 * U) IN IF c < 0 THEN -(q * U) ELSE q * U

\* update_coordinates on one particle: position := rounded complete position, shift := the rest
UpdateP(p) == LET cx == p.x + p.shift_x  cy == p.y + p.shift_y  cz == p.z + p.shift_z
              IN  [p EXCEPT !.x = RoundHalfAway(cx), !.y = RoundHalfAway(cy), !.z = RoundHalfAway(cz),
                            !.shift_x = cx - RoundHalfAway(cx), !.shift_y = cy - RoundHalfAway(cy),
                            !.shift_z = cz - RoundHalfAway(cz)]
UpdateAll(ps) == [i \in 1..Len(ps) |-> UpdateP(ps[i])]

\* list operations performed on the live object between construction and conversion (at most two):
\*   [op |-> "remove", cls |-> c, idx |-> <<>>]        remove_feature("class", c)
\*   [op |-> "select", cls |-> 0, idx |-> <<i1, ...>>]  the rows at these positions, in this order (df[mask], sort_values, iloc)
\* They leave non-default row labels behind; every conversion is positional on the surviving rows.
ApplyOp(ps, h) == IF h.op = "remove" THEN SelectSeq(ps, LAMBDA p : p.class # h.cls)
                  ELSE [k \in 1..Len(h.idx) |-> ps[h.idx[k]]]
ApplyHist(ps, hist) == IF Len(hist) = 0 THEN ps
                       ELSE IF Len(hist) = 1 THEN ApplyOp(ps, hist[1])
                       ELSE ApplyOp(ApplyOp(ps, hist[1]), hist[2])

Halfset(sid) == IF sid % 2 = 0 THEN "A" ELSE "B"

ToSgRow(p, i, reset) ==
    [c \in SharedSg \cup {"motl_idx", "halfset"} |->
        IF c = "halfset" THEN Halfset(p.subtomo_id)
        ELSE IF c = "motl_idx" THEN (IF reset THEN i ELSE p.subtomo_id)
        ELSE p[Back(c)]]
ToSg(ps, reset) == [i \in 1..Len(ps) |-> ToSgRow(ps[i], i, reset)]

FromSgRow(s) == [f \in MotlFields |-> s[Renaming[f]]]
FromSg(t) == [i \in 1..Len(t) |-> FromSgRow(t[i])]

-----------------------------------------------------------------------------
Step(o, r, s, b, p) == rows' = r /\ sg' = s /\ back' = b /\ pc' = p /\ op' = o /\ UNCHANGED cid

Export(reset) == pc = "list" /\ Step([name |-> "export", reset |-> reset], rows, ToSg(rows, reset), <<>>, "exported")

Import == pc = "exported" /\ Step([name |-> "import"], rows, sg, FromSg(sg), "imported")

Write(update, reset) ==
    /\ pc = "list"
    /\ LET r == IF update THEN UpdateAll(rows) ELSE rows
       IN  Step([name |-> "write", update |-> update, reset |-> reset], r, ToSg(r, reset), <<>>, "written")

Load == pc = "written" /\ Step([name |-> "load"], rows, sg, FromSg(sg), "loaded")

\* A list created from STOPGAP form (file or STOPGAP-layout table) is an ordinary particle list: it can be edited with
\* any list method.  kind "update" = update_coordinates; "setclass" = every particle is given the class value that the
\* object number of particle 1 names (a re-classification).
EditP(p, kind, ps) == IF kind = "update" THEN UpdateP(p) ELSE [p EXCEPT !.class = ps[1].object_id]
EditLoaded(kind) ==
    /\ pc \in {"imported", "loaded"}
    /\ Step([name |-> "edit", kind |-> kind, from |-> pc], rows, sg, [i \in 1..Len(back) |-> EditP(back[i], kind, back)], "edited")

\* the edited OBJECT itself is handed on (stopgap2emmotl(obj), StopgapMotl(obj).write_out): it is the edited list that is
\* converted, not the table it was once created from
Reexport(reset) ==
    /\ pc = "edited"
    /\ Step([name |-> "reexport", reset |-> reset, kind |-> op.kind, from |-> op.from], back, ToSg(back, reset), back, "reexported")

Init == rows \in InitLists /\ sg = <<>> /\ back = <<>> /\ pc = "list" /\ op = [name |-> "init"] /\ cid = 0

Next == \/ \E reset \in BOOLEAN : Export(reset)
        \/ Import
        \/ \E update, reset \in BOOLEAN : Write(update, reset)
        \/ Load
        \/ \E kind \in {"update", "setclass"} : EditLoaded(kind)
        \/ \E reset \in BOOLEAN : Reexport(reset)

Spec == Init /\ [][Next]_vars

-----------------------------------------------------------------------------
\* Property clauses.  They are stated field by field, in the property's words, not through Renaming.

HasSg == pc \in {"exported", "imported", "written", "loaded", "reexported"}

C04_Renaming ==
    HasSg => /\ Len(sg) = Len(rows)
             /\ \A i \in 1..Len(rows) :
                  /\ sg[i].score = rows[i].score       /\ sg[i].subtomo_num = rows[i].subtomo_id
                  /\ sg[i].tomo_num = rows[i].tomo_id  /\ sg[i].object = rows[i].object_id
                  /\ sg[i].orig_x = rows[i].x /\ sg[i].orig_y = rows[i].y /\ sg[i].orig_z = rows[i].z
                  /\ sg[i].x_shift = rows[i].shift_x /\ sg[i].y_shift = rows[i].shift_y /\ sg[i].z_shift = rows[i].shift_z
                  /\ sg[i].phi = rows[i].phi /\ sg[i].psi = rows[i].psi /\ sg[i].the = rows[i].theta
                  /\ sg[i].class = rows[i].class

C04_Halfset ==
    HasSg => \A i \in 1..Len(sg) : sg[i].halfset = (IF rows[i].subtomo_id % 2 = 0 THEN "A" ELSE "B")

C04_MotlIdx ==
    [][op'.name \in {"export", "write", "reexport"} =>
          \A i \in 1..Len(sg') : sg'[i].motl_idx = (IF op'.reset THEN i ELSE rows'[i].subtomo_id)]_vars

\* conversion back (in memory or through the file) returns the 14 fields, in order
C04_FileRoundTrip ==
    pc \in {"imported", "loaded"} => back = [i \in 1..Len(rows) |-> [f \in MotlFields |-> rows[i][f]]]

\* with update_coord the written list holds integral positions, residual shifts of at most half a voxel and the
\* same complete positions as before; everything else is untouched
C04_UpdateCoord ==
    [][op'.name = "write" =>
          /\ Len(rows') = Len(rows)
          /\ \A i \in 1..Len(rows) :
               /\ rows'[i].x + rows'[i].shift_x = rows[i].x + rows[i].shift_x
               /\ rows'[i].y + rows'[i].shift_y = rows[i].y + rows[i].shift_y
               /\ rows'[i].z + rows'[i].shift_z = rows[i].z + rows[i].shift_z
               /\ \A f \in MotlFields \ {"x", "y", "z", "shift_x", "shift_y", "shift_z"} : rows'[i][f] = rows[i][f]
               /\ op'.update => /\ rows'[i].x % U = 0 /\ rows'[i].y % U = 0 /\ rows'[i].z % U = 0
                                /\ 2 * Abs(rows'[i].shift_x) <= U /\ 2 * Abs(rows'[i].shift_y) <= U
                                /\ 2 * Abs(rows'[i].shift_z) <= U
               /\ ~op'.update => rows'[i] = rows[i]]_vars

\* an edit made after loading survives when the object itself is converted again
C04_EditSurvives ==
    [][op'.name = "reexport" =>
          /\ Len(rows') = Len(back) /\ Len(sg') = Len(back)
          /\ \A i \in 1..Len(back) : \A f \in MotlFields : rows'[i][f] = back[i][f] /\ sg'[i][Renaming[f]] = back[i][f]]_vars

C04_OrderKept == [][Len(rows') = Len(rows) /\ \A i \in 1..Len(rows) : rows'[i].subtomo_id = rows[i].subtomo_id]_vars

-----------------------------------------------------------------------------
\* every transition, with the part of the post state the operation produces
EmitTR == \/ EmitMode # "tr"
          \/ PrintT(<<"TR", ToJson([cid |-> cid, pre |-> IF cid = 0 THEN rows ELSE <<>>, op |-> op',
                                    rows |-> IF op'.name = "write" THEN rows' ELSE <<>>,
                                    sg |-> IF op'.name \in {"export", "write", "reexport"} THEN sg' ELSE <<>>,
                                    sgin |-> IF op'.name \in {"import", "load", "edit", "reexport"} THEN sg ELSE <<>>,
                                    back |-> back',
                                    \* the converted list after update_coordinates (stopgap2emmotl(..., update_coordinates=True))
                                    backu |-> [i \in 1..Len(back') |-> UpdateP(back'[i])]])>>)
=============================================================================

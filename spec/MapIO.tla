------------------------------- MODULE MapIO -------------------------------
(***************************************************************************)
(* C11 - map files (MRC / REC / EM).                                       *)
(*                                                                         *)
(* An in-memory map is an array indexed (x, y, z): shape <<s1, s2, s3>>,   *)
(* an element type and voxels vox[i][j][k].  A file is a document: format, *)
(* header dimensions <<nx, ny, nz>>, on-disk type and a linear payload in  *)
(* which the x index varies fastest: voxel (i, j, k) (0-based) lies at     *)
(* payload offset i + nx (j + ny k).  MRC and REC are the same format.     *)
(*                                                                         *)
(* Voxel values are opaque tokens [t, w, s]: identity t, width class w     *)
(* ("d" a float64 that float32 cannot hold, "s" a float32 value, "i" a     *)
(* small integer every element type holds) and sign s.  Narrowing float64  *)
(* to float32 is the token map Narrow, contrast inversion the map Neg.     *)
(* Casts to integer types are only offered for arrays of "i" tokens, where *)
(* they do not change values.                                              *)
(*                                                                         *)
(* transpose = TRUE (the default of cryomap.read / write) is the case the  *)
(* property words: header = array shape, x fastest.  transpose = FALSE     *)
(* means "the array already is in z, y, x order": header = reversed shape, *)
(* last array index fastest.                                               *)
(***************************************************************************)
EXTENDS Integers, Sequences, FiniteSets, TLC, Json

CONSTANTS
    InitArrays,     \* set of initial in-memory arrays
    Bases,          \* file base names
    Acts,           \* subset of {"write", "read", "em2mrc", "mrc2em", "invert"} enabled in this model
    TrSet,          \* transpose choices offered (subset of BOOLEAN)
    DtSet,          \* data_type choices offered (subset of {"none", "f64", "f32", "i16", "i8"})
    SpSet,          \* spellings of the data_type option offered (subset of Spellings)
    AfSet,          \* storage forms of the array handed to write offered (subset of ArrayForms)
    OwSet,          \* overwrite choices offered (subset of BOOLEAN)
    MaxDepth,
    EmitMode        \* "none" | "tr" | "hist"

VARIABLES mem, disk, res, op, d, hist
vars == <<mem, disk, res, op, d, hist>>

Exts == {"mrc", "rec", "em"}
FmtOf(ext) == IF ext = "em" THEN "em" ELSE "mrc"
FName(b, e) == b \o "." \o e
AllFiles == {FName(b, e) : b \in Bases, e \in Exts}

-----------------------------------------------------------------------------
\* values
Tok(t, w) == [t |-> t, w |-> w, s |-> 1]
Narrow(v) == IF v.w = "d" THEN [v EXCEPT !.w = "s"] ELSE v
Neg(v) == [v EXCEPT !.s = 0 - v.s]

Floats == {"f64", "f32"}
Fits(v, ty) == CASE ty = "f64" -> TRUE [] ty = "f32" -> v.w # "d" [] OTHER -> v.w = "i"
CastV(v, ty) == IF ty = "f32" THEN Narrow(v) ELSE v

-----------------------------------------------------------------------------
\* arrays
NoArr == [shape |-> <<0, 0, 0>>, dtype |-> "none", vox |-> <<>>]
Cells(A) == (1..A.shape[1]) \X (1..A.shape[2]) \X (1..A.shape[3])
At(A, c) == A.vox[c[1]][c[2]][c[3]]
MkArr(shape, dtype, F(_, _, _)) ==
    [shape |-> shape, dtype |-> dtype,
     vox |-> [i \in 1..shape[1] |-> [j \in 1..shape[2] |-> [k \in 1..shape[3] |-> F(i, j, k)]]]]
MapArr(A, dtype, G(_)) == LET F(i, j, k) == G(A.vox[i][j][k]) IN MkArr(A.shape, dtype, F)

IsArr(A) == /\ \A a \in 1..3 : A.shape[a] >= 1
            /\ A.dtype \in {"f64", "f32", "i16", "i8"}
            /\ \A c \in Cells(A) : Fits(At(A, c), A.dtype)

CanCast(A, ty) == ty = "none" \/ ty = "f64" \/ (ty = "f32") \/ \A c \in Cells(A) : At(A, c).w = "i"
CastArr(A, ty) == IF ty = "none" THEN A ELSE LET G(v) == CastV(v, ty) IN MapArr(A, ty, G)
NegArr(A) == LET G(v) == Neg(v) IN MapArr(A, A.dtype, G)
\* what a file can hold of an array: float64 is narrowed to float32, every other type is kept
DiskType(ty) == IF ty = "f64" THEN "f32" ELSE ty
NarrowArr(A) == LET G(v) == Narrow(v) IN MapArr(A, DiskType(A.dtype), G)

-----------------------------------------------------------------------------
\* documents
NoDoc == [fmt |-> "none", dims |-> <<0, 0, 0>>, mode |-> "none", data |-> <<>>]
Off(i, j, k, nx, ny) == 1 + (i - 1) + nx * ((j - 1) + ny * (k - 1))       \* 1-based payload index of voxel (i,j,k)

\* file voxel (i, j, k) of an array written with / without transposition
FileVoxel(A, tr, i, j, k) == IF tr THEN A.vox[i][j][k] ELSE A.vox[k][j][i]
FileDims(A, tr) == IF tr THEN A.shape ELSE <<A.shape[3], A.shape[2], A.shape[1]>>

DocOf(A, tr, fmt) ==
    LET dm == FileDims(A, tr)
        nx == dm[1]
        ny == dm[2]
        nz == dm[3]
    IN  [fmt |-> fmt, dims |-> dm, mode |-> DiskType(A.dtype),
         data |-> [q \in 1..(nx * ny * nz) |->
                     Narrow(FileVoxel(A, tr, ((q - 1) % nx) + 1, (((q - 1) \div nx) % ny) + 1, ((q - 1) \div (nx * ny)) + 1))]]

ArrOf(D, tr) ==
    LET nx == D.dims[1]
        ny == D.dims[2]
        F(a, b, c) == IF tr THEN D.data[Off(a, b, c, nx, ny)] ELSE D.data[Off(c, b, a, nx, ny)]
    IN  MkArr(IF tr THEN D.dims ELSE <<D.dims[3], D.dims[2], D.dims[1]>>, D.mode, F)

IsDoc(D) == /\ D.fmt \in {"mrc", "em"}
            /\ D.mode \in {"f32", "i16", "i8"}
            /\ Len(D.data) = D.dims[1] * D.dims[2] * D.dims[3]
            /\ \A q \in 1..Len(D.data) : Fits(D.data[q], D.mode)

-----------------------------------------------------------------------------
\* wire format for the drivers: sign * (token + 100000 * width index)
WIdx(w) == CASE w = "d" -> 0 [] w = "s" -> 1 [] OTHER -> 2
VJ(v) == v.s * (v.t + 100000 * WIdx(v.w))
AJ(A) == [shape |-> A.shape, dtype |-> A.dtype,
          vox |-> [i \in 1..Len(A.vox) |-> [j \in 1..Len(A.vox[i]) |-> [k \in 1..Len(A.vox[i][j]) |-> VJ(A.vox[i][j][k])]]]]
DocJ(D) == [fmt |-> D.fmt, dims |-> D.dims, mode |-> D.mode, data |-> [q \in 1..Len(D.data) |-> VJ(D.data[q])]]
DiskJ(dk) == [f \in {g \in AllFiles : dk[g] # NoDoc} |-> DocJ(dk[f])]
StJ(m, dk, r) == [mem |-> AJ(m), disk |-> DiskJ(dk), res |-> r]

-----------------------------------------------------------------------------
Step(o) == /\ op' = o
           /\ d' = d + 1
           /\ hist' = IF EmitMode = "hist" THEN Append(hist, [op |-> o, mem |-> mem', disk |-> disk', res |-> res']) ELSE hist

\* the effect of cryomap.write(A, target, transpose = tr, overwrite = ow) on the disk; refused when the target
\* exists and overwriting is not allowed
Refused(f, ow) == ~ow /\ disk[f] # NoDoc
Put(f, A, tr, ow, e) ==
    IF Refused(f, ow) THEN res' = "refused" /\ disk' = disk
    ELSE res' = "ok" /\ disk' = [disk EXCEPT ![f] = DocOf(A, tr, FmtOf(e))]

\* The data_type option denotes an element type; the caller may spell it as the numpy scalar type (np.float64), a
\* dtype object (np.dtype("float64")), the type name ("float64"), the array-protocol code ("f8"), the type character
\* ("d"), a numpy alias (np.double) or - for double precision only - the builtin float.  The spelling is a parameter of
\* the call and immaterial for its outcome: dt is the denoted type.
Spellings == {"type", "dtype", "name", "code", "char", "alias", "builtin"}
SpChoices(dt) == IF dt = "none" THEN {"none"} ELSE {sp \in SpSet : sp = "builtin" => dt = "f64"}

\* The array handed to write is the same map however it lies in memory: C-ordered, Fortran-ordered, a non-contiguous
\* view of a larger array, or read-only.  The storage form is a parameter of the call and immaterial for its outcome.
ArrayForms == {"c", "f", "view", "ro"}

\* cryomap.write(<mem stored as af>, "<b>.<e>", transpose = tr, data_type = <dt spelled sp>, overwrite = ow)
Write(b, e, tr, dt, sp, af, ow) ==
    /\ "write" \in Acts
    /\ CanCast(mem, dt)
    /\ Put(FName(b, e), CastArr(mem, dt), tr, ow, e)
    /\ UNCHANGED mem
    /\ sp \in SpChoices(dt)
    /\ af \in AfSet
    /\ Step([name |-> "write", file |-> FName(b, e), tr |-> tr, dt |-> dt, sp |-> sp, af |-> af, ow |-> ow])

\* mem = cryomap.read("<b>.<e>", transpose = tr, data_type = dt)
Read(b, e, tr, dt, sp) ==
    /\ "read" \in Acts
    /\ disk[FName(b, e)] # NoDoc
    /\ CanCast(ArrOf(disk[FName(b, e)], tr), dt)
    /\ mem' = CastArr(ArrOf(disk[FName(b, e)], tr), dt)
    /\ res' = "ok"
    /\ UNCHANGED disk
    /\ sp \in SpChoices(dt)
    /\ Step([name |-> "read", file |-> FName(b, e), tr |-> tr, dt |-> dt, sp |-> sp])

\* cryomap.em2mrc / mrc2em("<b>.<from>", invert = inv, overwrite = ow, output_name = out);
\* out = "default" -> the input name with the extension exchanged
Convert(name, b, from, to, inv, ow, ob) ==
    LET f == FName(b, from)
        target == IF ob = "default" THEN FName(b, to) ELSE FName(ob, to)
        A == ArrOf(disk[f], TRUE)
    IN  /\ name \in Acts
        /\ disk[f] # NoDoc
        /\ Put(target, IF inv THEN NegArr(A) ELSE A, TRUE, ow, to)
        /\ UNCHANGED mem
        /\ Step([name |-> name, file |-> f, inv |-> inv, ow |-> ow, out |-> IF ob = "default" THEN "default" ELSE target,
                 target |-> target])

\* mem = cryomap.invert_contrast("<b>.<e>", output_name = out)
Invert(b, e, ob, oe) ==
    LET f == FName(b, e)
        A == NegArr(ArrOf(disk[f], TRUE))
    IN  /\ "invert" \in Acts
        /\ disk[f] # NoDoc
        /\ ob = "none" => oe = "mrc"          \* (no output file: the extension choice is immaterial)
        /\ mem' = A
        /\ IF ob = "none" THEN disk' = disk /\ res' = "ok" ELSE Put(FName(ob, oe), A, TRUE, TRUE, oe)
        /\ Step([name |-> "invert", file |-> f, out |-> IF ob = "none" THEN "none" ELSE FName(ob, oe)])

Init == /\ mem \in InitArrays
        /\ disk = [f \in AllFiles |-> NoDoc]
        /\ res = "ok"
        /\ op = [name |-> "init"]
        /\ d = 0
        /\ hist = IF EmitMode = "hist" THEN <<[op |-> [name |-> "init"], mem |-> mem, disk |-> disk, res |-> res]>> ELSE <<>>

\* in "hist" mode the last step of a behaviour is the single stuttering step "end", so that -simulate prints every
\* behaviour once (the printing constraint is evaluated on every successor of the last but one state)
Last == IF EmitMode = "hist" THEN MaxDepth - 1 ELSE MaxDepth
Finish == /\ EmitMode = "hist"
          /\ d = MaxDepth - 1
          /\ UNCHANGED <<mem, disk, res>>
          /\ Step([name |-> "end"])

Next == \/ /\ d < Last
           /\ \/ \E b \in Bases, e \in Exts, tr \in TrSet, dt \in DtSet, sp \in SpSet \cup {"none"}, af \in AfSet, ow \in OwSet :
                     Write(b, e, tr, dt, sp, af, ow)
              \/ \E b \in Bases, e \in Exts, tr \in TrSet, dt \in DtSet, sp \in SpSet \cup {"none"} : Read(b, e, tr, dt, sp)
              \/ \E b \in Bases, inv \in BOOLEAN, ow \in OwSet, ob \in Bases \cup {"default"} :
                     \/ Convert("em2mrc", b, "em", "mrc", inv, ow, ob)
                     \/ Convert("mrc2em", b, "mrc", "em", inv, ow, ob)
              \/ \E b \in Bases, e \in Exts, ob \in Bases \cup {"none"}, oe \in Exts : Invert(b, e, ob, oe)
        \/ Finish

Spec == Init /\ [][Next]_vars

-----------------------------------------------------------------------------
\* Property clauses (C11)

IsConv(o) == o.name \in {"em2mrc", "mrc2em"}
Changed == {f \in AllFiles : disk'[f] # disk[f]}

\* a plain write with the default transposition: header = array shape, x fastest, float64 narrowed, type kept
C11_DiskLayout ==
    [][op'.name = "write" /\ res' = "ok" /\ op'.tr =>
          LET D == disk'[op'.file]
              A == CastArr(mem, op'.dt)
          IN  /\ D.dims = A.shape
              /\ D.mode = DiskType(A.dtype)
              /\ D.fmt = (IF op'.file \in {FName(b, "em") : b \in Bases} THEN "em" ELSE "mrc")
              /\ \A c \in Cells(A) : D.data[1 + (c[1] - 1) + D.dims[1] * ((c[2] - 1) + D.dims[2] * (c[3] - 1))]
                                       = Narrow(At(A, c))
              /\ Changed \subseteq {op'.file}]_vars

\* the written document is a function of the denoted element type alone - every spelling of data_type gives the file
\* (and, for read, the array) of the canonical spelling
C11_SpellingIrrelevant ==
    [][/\ op'.name = "write" /\ res' = "ok" =>
              disk'[op'.file] = DocOf(CastArr(mem, op'.dt), op'.tr, IF op'.file \in {FName(b, "em") : b \in Bases} THEN "em" ELSE "mrc")
       /\ op'.name = "read" => mem' = CastArr(ArrOf(disk[op'.file], op'.tr), op'.dt)]_vars

\* frame conditions: the in-memory map is an argument of write and of the conversions, never a result - only read and
\* invert_contrast hand out a new one; and what they handed out stays what it was until the next of them
C11_ArgumentsKept == [][op'.name \in {"write", "em2mrc", "mrc2em"} => mem' = mem]_vars
\* in particular an array that read handed out does not follow its file: rewriting, converting onto or deleting the
\* file it came from (any step that is not itself a read / invert_contrast) leaves it what it was
C11_ResultsPersist == [][op'.name \notin {"read", "invert", "init"} => mem' = mem]_vars

\* what is written is what is read back with the same transposition flag: same shape, same (narrowed) voxels
C11_RoundTrip ==
    [][op'.name = "write" /\ res' = "ok" =>
          ArrOf(disk'[op'.file], op'.tr) = NarrowArr(CastArr(mem, op'.dt))]_vars

\* reading is the inverse placement: voxel (i,j,k) of the result is the payload element at i + nx (j + ny k)
C11_ReadLayout ==
    [][op'.name = "read" /\ op'.tr /\ op'.dt = "none" =>
          LET D == disk[op'.file]
          IN  /\ mem'.shape = D.dims
              /\ \A c \in Cells(mem') : At(mem', c) = D.data[Off(c[1], c[2], c[3], D.dims[1], D.dims[2])]]_vars

\* conversions keep header, on-disk type and every voxel; with inversion every voxel is negated
C11_ConvertPreserves ==
    [][IsConv(op') /\ res' = "ok" /\ ~op'.inv =>
          LET S == disk[op'.file]
              T == disk'[op'.target]
          IN  T.dims = S.dims /\ T.mode = S.mode /\ T.data = S.data /\ T.fmt # S.fmt]_vars

C11_ConvertNegates ==
    [][IsConv(op') /\ res' = "ok" /\ op'.inv =>
          LET S == disk[op'.file]
              T == disk'[op'.target]
          IN  /\ T.dims = S.dims /\ T.mode = S.mode /\ T.fmt # S.fmt
              /\ Len(T.data) = Len(S.data)
              /\ \A q \in 1..Len(S.data) : T.data[q] = Neg(S.data[q])]_vars

\* told not to overwrite and the target exists: refusal, nothing on disk changes
C11_NoClobber ==
    [][op'.name \in {"write", "em2mrc", "mrc2em"} /\ ~op'.ow /\
       disk[IF op'.name = "write" THEN op'.file ELSE op'.target] # NoDoc => res' = "refused" /\ disk' = disk]_vars

\* default output name: same base, the other extension; nothing but the target changes
C11_DefaultNames ==
    [][IsConv(op') =>
          /\ Changed \subseteq {op'.target}
          /\ op'.out = "default" =>
                \E b \in Bases : op'.file = FName(b, IF op'.name = "em2mrc" THEN "em" ELSE "mrc")
                                 /\ op'.target = FName(b, IF op'.name = "em2mrc" THEN "mrc" ELSE "em")]_vars

\* inversion twice is the identity (on values)
C11_NegInvolution == mem # NoArr => NegArr(NegArr(mem)) = mem

TypeOK == /\ IsArr(mem)
          /\ \A f \in AllFiles : disk[f] = NoDoc \/ IsDoc(disk[f])
          /\ res \in {"ok", "refused"}
          /\ d \in 0..MaxDepth

-----------------------------------------------------------------------------
\* emission
EmitTR == \/ EmitMode # "tr"
          \/ PrintT(ToJson([pre |-> StJ(mem, disk, res), op |-> op', post |-> StJ(mem', disk', res')]))

EmitHist == \/ EmitMode # "hist"
            \/ d < MaxDepth
            \/ PrintT(ToJson([hist |-> [n \in 1..Len(hist) |->
                    [op |-> hist[n].op, post |-> StJ(hist[n].mem, hist[n].disk, hist[n].res)]]]))

View == <<mem, disk, res>>
=============================================================================

----------------------------- MODULE MapIOTrace -----------------------------
(***************************************************************************)
(* C11, code -> spec, large shapes (1..48 per axis).                       *)
(*                                                                         *)
(* The driver runs cryomap.write / read / em2mrc / mrc2em on a random map  *)
(* that carries uniquely valued markers on a constant background, parses   *)
(* every file with the independent readers and logs, per call, only        *)
(* observations: shapes, header triples, on-disk types, and for each       *)
(* marker the 0-based position in the array and the 0-based offset at      *)
(* which the raw payload holds its value (-1: not found; cnt = number of   *)
(* occurrences).  This module decides with the placement law of MapIO.tla: *)
(*     offset = i + nx * (j + ny * k),  header = array shape               *)
(* (transpose = FALSE: header = reversed shape, offset = k + nx (j + ny i)) *)
(* Many traces are validated in one run; the initial states are the ids.   *)
(***************************************************************************)
EXTENDS Integers, Sequences, TLC, Json, IOUtils

Traces == ndJsonDeserialize(IOEnv.TRACE_FILE)

VARIABLES tid, l, ok, clause
vars == <<tid, l, ok, clause>>

Events == Traces[tid].ev

Rev(s) == <<s[3], s[2], s[1]>>
DiskType(ty) == IF ty = "f64" THEN "f32" ELSE ty
\* 0-based payload offset of array position p under the placement law
OffOf(p, hdr, tr) == IF tr THEN p[1] + hdr[1] * (p[2] + hdr[2] * p[3])
                     ELSE p[3] + hdr[1] * (p[2] + hdr[2] * p[1])

\* e.dt is the element type the data_type option denotes, e.sp the way the call spelled it ("none": option not given);
\* the spelling does not enter the law
Spellings == {"none", "type", "dtype", "name", "code", "char", "alias", "builtin"}
WriteOK(e) ==
    /\ e.sp \in Spellings /\ (e.sp = "none") = (e.dt = "none") /\ (e.sp = "builtin" => e.dt = "f64")
    /\ e.af \in {"c", "f", "view", "ro"}                    \* storage form of the array: does not enter the law
    /\ e.arg_kept                                           \* the array handed in is unchanged after the call
    /\ e.valid                                              \* the bytes are a valid file of the extension's format
    /\ e.hdr = (IF e.tr THEN e.shape ELSE Rev(e.shape))
    /\ e.mode = DiskType(IF e.dt = "none" THEN e.dtype ELSE e.dt)
    /\ e.n = e.hdr[1] * e.hdr[2] * e.hdr[3]
    /\ e.bg_ok
    /\ \A m \in 1..Len(e.markers) : e.markers[m].cnt = 1 /\ e.markers[m].off = OffOf(e.markers[m].p, e.hdr, e.tr)

ReadOK(e) ==
    /\ e.shape_out = (IF e.tr THEN e.hdr ELSE Rev(e.hdr))
    /\ e.bg_ok
    /\ \A m \in 1..Len(e.markers) : e.markers[m].cnt = 1 /\ e.markers[m].off = OffOf(e.markers[m].q, e.hdr, e.tr)

\* a write followed by a read with the same flag: every marker is back where it was, the shape is the same
RoundOK(e) ==
    /\ e.shape_out = e.shape
    /\ \A m \in 1..Len(e.markers) : e.markers[m].q = e.markers[m].p

ConvOK(e) ==
    /\ e.valid
    /\ e.hdr_dst = e.hdr_src
    /\ e.mode_dst = e.mode_src
    /\ e.fmt_dst = (IF e.name = "em2mrc" THEN "mrc" ELSE "em")
    /\ e.bg_ok
    /\ \A m \in 1..Len(e.markers) : e.markers[m].cnt = 1 /\ e.markers[m].off_dst = e.markers[m].off_src

RefuseOK(e) == e.raised /\ e.unchanged

\* the name of the first clause the event breaks, or "none"
Failing(e) ==
    CASE e.name = "write" -> IF WriteOK(e) THEN "none" ELSE "C11_DiskLayout"
      [] e.name = "read" -> IF ~ReadOK(e) THEN "C11_ReadLayout" ELSE IF ~RoundOK(e) THEN "C11_RoundTrip" ELSE "none"
      [] e.name \in {"em2mrc", "mrc2em"} ->
             IF ~e.target_ok THEN "C11_DefaultNames"
             ELSE IF ConvOK(e) THEN "none" ELSE IF e.inv THEN "C11_ConvertNegates" ELSE "C11_ConvertPreserves"
      [] e.name = "refuse" -> IF RefuseOK(e) THEN "none" ELSE "C11_NoClobber"
      \* the array that the read returned, inspected again after the later calls, still holds what it held
      [] e.name = "reinspect" -> IF e.unchanged THEN "none" ELSE "C11_RoundTrip"

TraceInit == /\ tid \in 1..Len(Traces)
             /\ l = 1
             /\ ok = TRUE
             /\ clause = "none"

TraceNext == /\ ok
             /\ l <= Len(Events)
             /\ LET c == Failing(Events[l]) IN ok' = (c = "none") /\ clause' = c
             /\ l' = l + 1
             /\ UNCHANGED tid

TraceSpec == TraceInit /\ [][TraceNext]_vars

Report == \/ (ok /\ l <= Len(Events))
          \/ PrintT(<<"VERDICT", ToJson([tid |-> tid, ok |-> ok, clause |-> clause, step |-> l - 1])>>)
=============================================================================

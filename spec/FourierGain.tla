----------------------------- MODULE FourierGain -----------------------------
(***************************************************************************)
(* C12 - constant-level part of the Fourier-filter specification.          *)
(*                                                                         *)
(* A map of size n = <<n1, n2, n3>> has the integer frequency vectors      *)
(*     k in Freq(n),   k_i in  -(n_i div 2) .. ((n_i + 1) div 2) - 1.      *)
(* A filter is a gain per frequency.  The statement fixes the gain only    *)
(* through the integer radius |k| (compared squared, in integers):         *)
(*   hard edge (no Gaussian):  gain = 1 if |k|^2 <= r^2, else 0            *)
(*   soft edge of width sigma (f = 4 sigma, an integer):                   *)
(*       One :  |k| <= r - f - 1   =>  gain 1                              *)
(*       Zero:  |k| >= r + f + 1   =>  gain 0                              *)
(*       between: in [0,1], non-increasing along every ray m*d             *)
(* so a frequency has a gain CLASS one / mid / zero.  High-pass is the     *)
(* complement, band-pass the difference of two low-passes, and a target    *)
(* resolution maps to round(edge * pixel_size / resolution) pixels.        *)
(***************************************************************************)
EXTENDS Integers, Sequences, FiniteSets, TLC

Abs(x) == IF x < 0 THEN -x ELSE x
Sq(x)  == x * x

KRange(N) == (0 - (N \div 2)) .. (((N + 1) \div 2) - 1)
Freq(n)   == KRange(n[1]) \X KRange(n[2]) \X KRange(n[3])
Norm2(k)  == Sq(k[1]) + Sq(k[2]) + Sq(k[3])

\* position of a frequency in the (unshifted) DFT array, and back
Idx(ki, N)  == IF ki >= 0 THEN ki ELSE ki + N
KOf(a, N)   == IF a < (N + 1) \div 2 THEN a ELSE a - N
LinK(n, k)  == (Idx(k[1], n[1]) * n[2] + Idx(k[2], n[2])) * n[3] + Idx(k[3], n[3])

\* ---- gain classes of the low-pass with cutoff r and edge f = 4 sigma
HardOne(k, r) == Norm2(k) <= Sq(r)
One(k, r, f)  == r - f - 1 >= 0 /\ Norm2(k) <= Sq(r - f - 1)
Zero(k, r, f) == Norm2(k) >= Sq(r + f + 1)
Class(k, r, f) == IF f = 0 THEN (IF HardOne(k, r) THEN "one" ELSE "zero")
                  ELSE IF One(k, r, f) THEN "one" ELSE IF Zero(k, r, f) THEN "zero" ELSE "mid"
Rank(c) == IF c = "one" THEN 2 ELSE IF c = "mid" THEN 1 ELSE 0

\* ---- hard-edged filters as sets of passed frequencies
LP(n, r)      == {k \in Freq(n) : HardOne(k, r)}
HP(n, r)      == Freq(n) \ LP(n, r)
BP(n, rl, rh) == LP(n, rl) \ LP(n, rh)           \* low-pass cutoff rl, high-pass cutoff rh <= rl

\* ---- rays: the primitive direction of k and its predecessor on the ray 0, d, 2d, ...
RECURSIVE Gcd(_, _)
Gcd(a, b) == IF b = 0 THEN a ELSE Gcd(b, a % b)
Gcd3(k) == Gcd(Gcd(Abs(k[1]), Abs(k[2])), Abs(k[3]))
Prev(k) == LET g == Gcd3(k) IN <<k[1] - k[1] \div g, k[2] - k[2] \div g, k[3] - k[3] \div g>>      \* k # 0
\* (x \div g is exact: g divides every component, also for negative components)

\* mirror images of k that are frequencies of the box (for even N the Nyquist index -N/2 has no +N/2 partner)
Mirrors(n, k) == {m \in {<<a, b, c>> : a \in {k[1], -k[1]}, b \in {k[2], -k[2]}, c \in {k[3], -k[3]}} : m \in Freq(n)}
\* the ball of radius r does not touch any face of the frequency box: the filter mask is blurred inside the box, so
\* the edge handling of the blur (replication of face voxels) plays no role and the soft gain is sign symmetric
Interior(n, r) == \A i \in 1..3 : r <= ((n[i] + 1) \div 2) - 2

\* ---- resolution -> Fourier pixels:  round(edge * px / res), px and res in hundredths of an Angstrom
PixNum(edge, px100) == edge * px100
\* nearest integer; an exact half goes to the EVEN neighbour (the statement says round(), Python's round)
PixelsUp(edge, px100, res100) == (2 * PixNum(edge, px100) + res100) \div (2 * res100)          \* halves up
PixelsTie(edge, px100, res100) == (2 * PixNum(edge, px100) + res100) % (2 * res100) = 0       \* x.5 exactly
Pixels(edge, px100, res100) ==
    LET u == PixelsUp(edge, px100, res100)
    IN  IF PixelsTie(edge, px100, res100) /\ u % 2 = 1 THEN u - 1 ELSE u
\* A tie is decided only when the quotient edge*px/res is computed without rounding error in binary floating point:
\* pixel size and resolution multiples of 1/4 Angstrom (then edge*px and res are exact and k + 1/2 is representable).
\* Other ties are rational ties only; which side the float quotient falls on is not stated.
Dyadic(px100, res100) == px100 % 25 = 0 /\ res100 % 25 = 0
PixelsDecided(edge, px100, res100) == ~PixelsTie(edge, px100, res100) \/ Dyadic(px100, res100)

\* ---- one column of the hard-edged low-pass: for fixed (k1, k2) the passed k3 form the interval k3^2 <= r^2 - k1^2 - k2^2
\* around 0, cut to the frequency range.  RunIsColumn decides it from the two ends of a run (convexity of k3^2 <= s).
ColumnRoom(k1, k2, r) == Sq(r) - Sq(k1) - Sq(k2)
RunIsColumn(lo, hi, k1, k2, r, N3) ==
    LET s == ColumnRoom(k1, k2, r)
        kmin == 0 - (N3 \div 2)
        kmax == ((N3 + 1) \div 2) - 1
    IN  /\ s >= 0 /\ lo <= 0 /\ 0 <= hi /\ lo >= kmin /\ hi <= kmax
        /\ Sq(lo) <= s /\ Sq(hi) <= s
        /\ (lo = kmin \/ Sq(lo - 1) > s)
        /\ (hi = kmax \/ Sq(hi + 1) > s)
=============================================================================

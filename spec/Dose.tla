-------------------------------- MODULE Dose --------------------------------
(***************************************************************************)
(* C16 - dose filtering applies the Grant-Grigorieff exposure attenuation. *)
(*                                                                         *)
(* The specification of the filter: image i of a stack is multiplied, at   *)
(* the frequency with index <<kx, ky>>, by exp(-A) with                    *)
(*        A(i, k) = d_i / TwoNe(f(k)),   f(k)^2 = (kx/(W px))^2 + (ky/(H px))^2 *)
(* TLA+ has no real exponentials; the closed form is available at the      *)
(* tabulated frequencies (DoseTable, generated from the statement).  The   *)
(* machine below filters a stack whose measured frequencies all lie on the *)
(* table grid (the two axes of a 64 x 32 image with W px = 200 A,          *)
(* H px = 100 A) with one of several filter VARIANTS:                      *)
(*   "spec"       the statement                                            *)
(*   "const2pc"   critical exposure off by 2 %                             *)
(*   "half"       the factor 2 of the exponent dropped                     *)
(*   "reversed"   image i filtered with the dose of image n+1-i            *)
(*   "wrongdim"   y frequencies scaled with the width instead of the height*)
(*   "dc"         zero frequency attenuated like the lowest tabulated one  *)
(* and TLC checks that the clause set (DoseClauses!Failing) accepts        *)
(* exactly the "spec" variant - the clauses of the property are neither    *)
(* vacuous nor contradictory - plus the laws of the statement on the       *)
(* specified filter itself (zero dose, composition, monotonicity).         *)
(* The same clause set decides the tables measured on the implementation   *)
(* (DoseTrace.tla).                                                        *)
(***************************************************************************)
EXTENDS DoseClauses, SequencesExt

CONSTANTS DoseVectors,      \* set of dose vectors (sequences of e/A^2 x 100)
          Variants

VARIABLES stack, variant, table, phase
vars == <<stack, variant, table, phase>>

SW == 64
SH == 32
LX100 == 20000              \* W px = 200 A  -> on-axis x frequency kx is table index m = kx
LY100 == 10000              \* H px = 100 A  -> on-axis y frequency ky is table index m = 2 ky

RoundDiv(a, b) == (2 * a + b) \div (2 * b)
\* exponent x 1000 of dose d100 at table index m:  d / TwoNe = (d100/100) / (TwoNe_m/100)
Expo(d100, m) == LET a == RoundDiv(d100 * 1000, TwoNe(m)) IN IF a > Sat THEN Sat ELSE a

\* the measured frequencies: DC, x axis kx = 10 .. 31 (m = kx), y axis ky = 10 .. 15 (m = 2 ky)
Ks == {<<0, 0>>} \cup {<<kx, 0>> : kx \in 10 .. 31} \cup {<<0, ky>> : ky \in 10 .. 15}
Key(k) == <<Sq(k[1] * SH) + Sq(k[2] * SW), k[1], k[2]>>
Less(a, b) == LET x == Key(a)
                  y == Key(b)
              IN  x[1] < y[1] \/ (x[1] = y[1] /\ (x[2] < y[2] \/ (x[2] = y[2] /\ x[3] < y[3])))
Ent == SetToSortSeq(Ks, Less)

MOf(v, k) == IF k[2] = 0 THEN k[1]                      \* x axis
             ELSE IF v = "wrongdim" THEN k[2]           \* f = ky / (W px) instead of ky / (H px)
             ELSE 2 * k[2]

AOf(v, d100, k) ==
    IF k = <<0, 0>> THEN (IF v = "dc" THEN Expo(d100, TableLo) ELSE 0)
    ELSE LET m == MOf(v, k) IN
         CASE v = "const2pc" -> LET a == RoundDiv(d100 * 1000, (TwoNe(m) * 102) \div 100) IN IF a > Sat THEN Sat ELSE a
           [] v = "half"     -> LET a == RoundDiv(d100 * 500 * 4, TwoNe(m)) IN IF a > Sat THEN Sat ELSE a
           [] OTHER          -> Expo(d100, m)

DoseOf(v, ds, i) == IF v = "reversed" THEN ds[Len(ds) + 1 - i] ELSE ds[i]

Filter(v, ds) == [i \in 1 .. Len(ds) |-> [e \in 1 .. Len(Ent) |-> AOf(v, DoseOf(v, ds, i), Ent[e])]]

TableOf(v, ds) ==
    [W |-> SW, H |-> SH, n |-> Len(ds), d100 |-> ds, lx100 |-> LX100, ly100 |-> LY100, xexact |-> TRUE, yexact |-> TRUE,
     complete |-> FALSE, ent |-> Ent, A |-> Filter(v, ds), real |-> TRUE, spread |-> 0, pw |-> 0, leak |-> 0, lin |-> 0,
     mean |-> 0, degen |-> 0, rep |-> 0, keep |-> 0, argmut |-> FALSE, form |-> "xyz_c", pxas |-> "float",
     dosesas |-> "array", xres |-> <<>>, near |-> <<>>, hascomp |-> FALSE]

Init == /\ stack \in DoseVectors
        /\ variant \in Variants
        /\ table = <<>>
        /\ phase = "raw"
FilterStack == /\ phase = "raw"
               /\ table' = TableOf(variant, stack)
               /\ phase' = "filtered"
               /\ UNCHANGED <<stack, variant>>
Next == FilterStack
Spec == Init /\ [][Next]_vars

-----------------------------------------------------------------------------
Filtered == phase = "filtered"
TypeOK == phase \in {"raw", "filtered"}

\* the table is what the statement computes from: strictly decreasing critical exposure, one entry per m
C16_TableStrictlyDecreasing ==
    /\ Len(TwoNeSeq) = TableHi - TableLo + 1
    /\ \A m \in TableLo .. TableHi - 1 : TwoNe(m) > TwoNe(m + 1)
    /\ TwoNe(TableHi) > 2 * 281            \* 2 * Ne > 2 * 2.81 at every finite frequency

\* the clause set accepts the specified filter and rejects every other variant, each for the expected reason
Expected(v) == CASE v = "spec" -> {"none"}
                 [] v = "const2pc" -> {"C16_CalibratedCriticalExposure"}
                 [] v = "half"     -> {"C16_CalibratedCriticalExposure"}
                 [] v = "reversed" -> {"C16_DosePairingProportional", "C16_ZeroDoseIsIdentity"}
                 [] v = "wrongdim" -> {"C16_RadialInFrequencyOfPixelAndDimensions"}
                 [] v = "dc"       -> {"C16_MeanUnchanged"}
Palindrome(ds) == \A i \in 1 .. Len(ds) : ds[i] = ds[Len(ds) + 1 - i]
AllZero(ds) == \A i \in 1 .. Len(ds) : ds[i] = 0
\* variants the clauses cannot tell from the statement on this stack: a reversed palindrome; a wrong constant when no
\* dose reaches the calibration window (>= 50 e/A^2)
Indistinguishable == \/ variant = "reversed" /\ Palindrome(stack)
                     \/ variant \in {"const2pc", "half"} /\ CalibrationPoints(table) = 0
C16_ClauseSetDiscriminates ==
    Filtered /\ ~AllZero(stack) =>
        LET f == Failing(table) IN
        IF Indistinguishable THEN f = "none" ELSE f \in Expected(variant)
C16_SpecVariantSatisfiesEveryClause ==
    Filtered /\ variant = "spec" =>
        /\ WellFormed(table) /\ MeanUnchanged(table) /\ PowerNeverIncreases(table) /\ ZeroDoseIsIdentity(table)
        /\ RadialMonotone(table) /\ DosePairing(table) /\ MoreDoseAttenuatesMore(table) /\ Calibrated(table)

\* laws of the specified filter (consequences named in the statement)
C16_ZeroDoseAndComposition ==
    Filtered /\ variant = "spec" =>
        \A i \in 1 .. Len(stack), e \in 1 .. Len(Ent) :
            /\ stack[i] = 0 => table.A[i][e] = 0
            \* filtering with d and then d again = filtering with 2d (exponents add; +-1 from rounding, below saturation)
            /\ LET one == table.A[i][e]
                   two == AOf("spec", 2 * stack[i], Ent[e])
               IN  2 * stack[i] <= 30000 /\ two < Sat => Abs(two - 2 * one) <= 1
=============================================================================

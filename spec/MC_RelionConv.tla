--------------------------- MODULE MC_RelionConv ---------------------------
(* Small exhaustive scope of RelionConv.tla: every zxz / ZYZ quarter-turn triple (all 24 cube orientations, each in
   several spellings incl. the gimbal-lock ones and theta = 270), three versions, three pixel sizes, positions and
   shifts / origins of either sign on the 1/8 lattice, plain (numeric) and named tomogram / particle formats, one- and
   two-particle lists with both half-sets. *)
EXTENDS RelionConv

Plain == [named |-> FALSE, tpre |-> <<>>, tpad |-> 0, tpost |-> <<>>, spre |-> <<>>, spadx |-> 0, smid |-> <<>>, spady |-> 0, spost |-> <<>>]
Fmt3a == [named |-> TRUE, tpre |-> <<47, 112, 47, 84, 83, 95>>, tpad |-> 3, tpost |-> <<46, 114, 101, 99>>,
    spre |-> <<47, 115, 47>>, spadx |-> 3, smid |-> <<95>>, spady |-> 4, spost |-> <<95, 50, 46, 48, 65, 46, 109, 114, 99>>]    \* /p/TS_$xxx.rec   /s/$xxx_$yyyy_2.0A.mrc
Fmt3b == [named |-> TRUE, tpre |-> <<116, 111, 109, 111>>, tpad |-> 2, tpost |-> <<46, 109, 114, 99>>,
    spre |-> <<115, 117, 98, 47, 116>>, spadx |-> 2, smid |-> <<95, 112>>, spady |-> 6, spost |-> <<46, 109, 114, 99>>]    \* tomo$xx.mrc   sub/t$xx_p$yyyyyy.mrc
Fmt4a == [named |-> TRUE, tpre |-> <<84, 83, 95>>, tpad |-> 3, tpost |-> <<>>,
    spre |-> <<84, 83, 95>>, spadx |-> 3, smid |-> <<47>>, spady |-> 4, spost |-> <<>>]    \* TS_$xxx   TS_$xxx/$yyyy
Fmt4b == [named |-> TRUE, tpre |-> <<114, 117, 110, 49, 47, 84, 111, 109, 111>>, tpad |-> 4, tpost |-> <<>>,
    spre |-> <<84, 111, 109, 111>>, spadx |-> 4, smid |-> <<47>>, spady |-> 1, spost |-> <<>>]    \* run1/Tomo$xxxx   Tomo$xxxx/$y

Formats(v, quick) == IF v >= 40 THEN (IF quick THEN {Plain, Fmt4a} ELSE {Plain, Fmt4a, Fmt4b})
                     ELSE (IF quick THEN {Plain, Fmt3a} ELSE {Plain, Fmt3a, Fmt3b})

Triples == (0..3) \X (0..3) \X (0..3)
XSet == {<<16, 24, 40>>, <<-16, 0, 8>>}
SSet == {<<0, 0, 0>>, <<-9, 4, 24>>}
PxSet == {<<1, 1>>, <<2, 1>>, <<27, 20>>}

Part(x, s, e, t, sid, c) == [x |-> x, s |-> s, e |-> e, tomo |-> t, sid |-> sid, cls |-> c]
SecondPart == Part(<<24, 8, 16>>, <<4, -4, 1>>, <<1, 1, 2>>, 17, 1308, 3)

\* shape 0: one particle; 1: two particles; 2: two particles, the first one removed by its class before the export (the
\* survivor keeps row label 1); 3: two particles swapped before the export
ExportCase(v, f, x, s, e, sid, shape) ==
    [mode |-> "export", v |-> v, px |-> <<27, 20>>, fmt |-> f,
     parts |-> IF shape = 0 THEN <<Part(x, s, e, 3, sid, 2)>> ELSE <<Part(x, s, e, 3, sid, 2), SecondPart>>,
     hist |-> CASE shape \in {0, 1} -> <<>>
                [] shape = 2 -> <<[op |-> "remove", cls |-> 2, idx |-> <<>>]>>
                [] shape = 3 -> <<[op |-> "select", cls |-> 0, idx |-> <<2, 1>>]>>]

\* an origin component that encodes the shift -k (lattice units) in the unit of the version
OriginFor(k, v, px) == IF v >= 31 THEN <<k * px[1], U * px[2]>> ELSE <<k, U>>
Rin(c, ks, e, t, sid, sub, cl, v, px) ==
    [coord |-> c, origin |-> [i \in 1..3 |-> OriginFor(ks[i], v, px)], M |-> Code(FromZYZi(e[1], e[2], e[3])), e |-> e,
     tomo |-> t, sid |-> sid, subset |-> sub, cls |-> cl]
KSet == {<<0, 0, 0>>, <<-9, 4, 24>>, <<3, -20, 1>>}

ImportCase(v, px, f, ks, e, sid, sub, two) ==
    [mode |-> "import", v |-> v, px |-> px, fmt |-> f,
     rin |-> IF two THEN <<Rin(<<16, 24, 40>>, ks, e, 3, sid, sub, 2, v, px),
                           Rin(<<24, 8, 16>>, <<4, -4, 1>>, <<1, 1, 2>>, 17, 1308, 3 - sub, 3, v, px)>>
             ELSE <<Rin(<<16, 24, 40>>, ks, e, 3, sid, sub, 2, v, px)>>]

\* import, clean / re-order, export with the original entries, import again.  shape 1: untouched; 2: the first particle
\* removed by its class; 3: the two particles swapped
OrigCase(v, f, e, sid, sub, shape) ==
    [mode |-> "orig", v |-> v, px |-> <<27, 20>>, fmt |-> f,
     rin |-> <<Rin(<<16, 24, 40>>, <<-9, 4, 24>>, e, 3, sid, sub, 2, v, <<27, 20>>),
               Rin(<<24, 8, 16>>, <<4, -4, 1>>, <<1, 1, 2>>, 17, 1308, 3 - sub, 3, v, <<27, 20>>)>>,
     hist |-> CASE shape = 1 -> <<>>
                [] shape = 2 -> <<[op |-> "remove", cls |-> 2, idx |-> <<>>]>>
                [] shape = 3 -> <<[op |-> "select", cls |-> 0, idx |-> <<2, 1>>]>>]

\* RELION-4 style numbering that restarts in every tomogram: the two rows carry the SAME subtomogram number (tomograms 3
\* and 17) and any half-set assignment (also 2 before 1, or one half-set only)
RestartCase(v, f, e, sid, subs) ==
    [mode |-> "import", v |-> v, px |-> <<27, 20>>, fmt |-> f,
     rin |-> <<Rin(<<16, 24, 40>>, <<-9, 4, 24>>, e, 3, sid, subs[1], 2, v, <<27, 20>>),
               Rin(<<24, 8, 16>>, <<4, -4, 1>>, <<1, 1, 2>>, 17, sid, subs[2], 3, v, <<27, 20>>)>>]

\* a merged list: the two rows have different pixel sizes (taken from the data, per particle)
OtherPx(px) == IF px = <<2, 1>> THEN <<27, 20>> ELSE <<2, 1>>
MixedPxCase(v, px, e, sid) ==
    [mode |-> "import", v |-> v, px |-> px, pxs |-> <<px, OtherPx(px)>>, fmt |-> Plain,
     rin |-> <<Rin(<<16, 24, 40>>, <<-9, 4, 24>>, e, 3, sid, 1, 2, v, px),
               Rin(<<24, 8, 16>>, <<4, -4, 1>>, <<1, 1, 2>>, 17, 1308, 2, 3, v, OtherPx(px))>>]

Start == rel = <<>> /\ back = <<>> /\ pc = "start" /\ op = "init" /\ cid = 0 /\ live = <<>>

\* (formats only make sense with their version family)
MCInit(quick) ==
    /\ \/ \E v \in {30, 31, 40} : \E f \in Formats(v, quick) : \E x \in XSet, s \in SSet, e \in Triples, sid \in {7, 12}, shape \in 0..3 :
              cs = ExportCase(v, f, x, s, e, sid, shape)
       \/ \E v \in {30, 31, 40}, px \in PxSet, ks \in KSet, e \in Triples, sid \in {7, 12}, sub \in {1, 2}, two \in BOOLEAN :
              cs = ImportCase(v, px, Plain, ks, e, sid, sub, two)
       \/ \E v \in {30, 31, 40} : \E f \in Formats(v, quick) \ {Plain} : \E px \in PxSet, e \in Triples, sid \in {7, 12}, sub \in {1, 2} :
              cs = ImportCase(v, px, f, <<-9, 4, 24>>, e, sid, sub, TRUE)
       \/ \E v \in {30, 31, 40} : \E f \in Formats(v, quick) : \E e \in Triples, sid \in {7, 12}, sub \in {1, 2}, shape \in 1..3 :
              cs = OrigCase(v, f, e, sid, sub, shape)
       \/ \E v \in {30, 31, 40}, px \in PxSet, e \in Triples, sid \in {7, 12} : cs = MixedPxCase(v, px, e, sid)
       \/ \E v \in {30, 31, 40} : \E f \in Formats(v, quick) : \E e \in Triples, sid \in {1, 12}, subs \in {<<2, 1>>, <<1, 2>>, <<2, 2>>} :
              cs = RestartCase(v, f, e, sid, subs)
    /\ Start

QuickInit == MCInit(TRUE)
FullInit == MCInit(FALSE)
=============================================================================

----------------------------- MODULE RelionTrace -----------------------------
(***************************************************************************)
(* C03, code -> spec.  Three kinds of records, many per run:               *)
(*  "file"   a list exported by RelionMotl.write_out / emmotl2relion on    *)
(*           the exact domain: the abstract list, version, format, optics  *)
(*           flag, the bytes of the file (lines), byte spellings of the    *)
(*           RELION labels (spell) and the projection of the list loaded   *)
(*           back from the file (loaded).  The file is parsed here with    *)
(*           Star!Parse; coordinates, origins, names, half-sets, classes   *)
(*           are compared with RelionConv!ExportP, the three angle tokens  *)
(*           are turned into quarter turns and the ZYZ rotation they spell *)
(*           must be the inverse of the particle's rotation (in Cube).     *)
(*  "ids"    the subtomogram numbers of an imported list with the          *)
(*           half-sets of the RELION rows: RelionConv!IdsOK.               *)
(*  "resid"  real-valued lists: integer-scaled residuals of the export,    *)
(*           import and round-trip identities computed by the projection   *)
(*           (positions x 1e7 relative, rotations x 1e7 max-norm).         *)
(***************************************************************************)
EXTENDS Star, Json, IOUtils

RC == INSTANCE RelionConv WITH InitCases <- {}, EmitMode <- "none", cs <- <<>>, rel <- <<>>, back <- <<>>, pc <- "",
                               op <- "", cid <- 0, live <- <<>>

CONSTANTS PosTol, RotTol, FilePosTol, FileRotTol

Traces == ndJsonDeserialize(IOEnv.TRACE_FILE)

VARIABLES tid, done, clause, at
vars == <<tid, done, clause, at>>

Pow10 == <<1000000000, 100000000, 10000000, 1000000, 100000, 10000, 1000, 100, 10, 1>>
IntCanonE(n, e) == LET a == IF n < 0 THEN -n ELSE n
                   IN  Normalize(n < 0, [i \in 1..10 |-> (a \div Pow10[i]) % 10], e)
LatCanon(v) == IntCanonE(v * 125, -3)                    \* v / 8 voxels

\* RELION labels by version
TomoCol(v) == IF v >= 40 THEN "rlnTomoName" ELSE "rlnMicrographName"
PartCol(v) == IF v >= 40 THEN "rlnTomoParticleName" ELSE "rlnImageName"
OriginCols(v) == IF v >= 31 THEN <<"rlnOriginXAngst", "rlnOriginYAngst", "rlnOriginZAngst">>
                 ELSE <<"rlnOriginX", "rlnOriginY", "rlnOriginZ">>
CoordCols == <<"rlnCoordinateX", "rlnCoordinateY", "rlnCoordinateZ">>
AngleCols == <<"rlnAngleRot", "rlnAngleTilt", "rlnAnglePsi">>
Needed(v) == {TomoCol(v), PartCol(v), "rlnRandomSubset", "rlnClassNumber"}
             \cup {OriginCols(v)[k] : k \in 1..3} \cup {CoordCols[k] : k \in 1..3} \cup {AngleCols[k] : k \in 1..3}
ParticleBlock(v) == IF v >= 31 THEN "data_particles" ELSE "data_"

ColIndex(labels, name) == LET K == {k \in 1..Len(labels) : labels[k] = name} IN IF Cardinality(K) = 1 THEN SetMin(K) ELSE 0

\* an angle token as a number of quarter turns (0..3), or -1 when it is not a multiple of 90 degrees after Rnd6
Quarter(tok) ==
    IF ~IsNumeric(tok) THEN -1
    ELSE LET c == RoundTo6(NumCanon(tok))
         IN  IF c.digits = <<>> THEN 0
             ELSE IF c.exp < 0 \/ Len(c.digits) + c.exp > 4 THEN -1
             ELSE LET n == SmallNat([i \in 1..Len(c.digits) + c.exp |-> 48 + (IF i <= Len(c.digits) THEN c.digits[i] ELSE 0)])
                  IN  IF n % 90 # 0 THEN -1 ELSE (IF c.neg THEN 4 - ((n \div 90) % 4) ELSE (n \div 90)) % 4

NumIs(tok, canon) == IsNumeric(tok) /\ RoundTo6(NumCanon(tok)) = canon

FileVerdict(t) ==
    LET v == t.v
        live == RC!ApplyHist(t.parts, t.hist)          \* the list after the operations performed before the export
        N == Len(live)
        E == [i \in 1..N |-> RC!ExportP(live[i], t.fmt)]
        P == Parse(t.lines)
        twoBlocks == t.optics /\ v >= 31
        pb == IF twoBlocks THEN 2 ELSE 1
        blk == P.blocks[pb]
        idx == [c \in Needed(v) |-> ColIndex(blk.labels, t.spell[c])]
        Cell(i, c) == blk.rows[i][idx[c]]
        BadPose == {i \in 1..N :
                      \/ \E k \in 1..3 : ~NumIs(Cell(i, CoordCols[k]), LatCanon(E[i].coord[k]))
                      \/ \E k \in 1..3 : ~NumIs(Cell(i, OriginCols(v)[k]), ZeroCanon)
                      \/ LET q == [k \in 1..3 |-> Quarter(Cell(i, AngleCols[k]))]
                         IN  \/ \E k \in 1..3 : q[k] < 0
                             \/ RC!Mul(RC!FromZYZi(q[1], q[2], q[3]), RC!Rot(live[i])) # RC!Id}
        BadIdent == {i \in 1..N :
                      \/ ~NumIs(Cell(i, "rlnClassNumber"), IntCanonE(E[i].cls, 0))
                      \/ IF t.fmt.named THEN Cell(i, TomoCol(v)) # E[i].tomoName \/ Cell(i, PartCol(v)) # E[i].partName
                         ELSE ~NumIs(Cell(i, TomoCol(v)), IntCanonE(E[i].tomo, 0)) \/ ~NumIs(Cell(i, PartCol(v)), IntCanonE(E[i].sid, 0))}
        BadHalf == {i \in 1..N : ~NumIs(Cell(i, "rlnRandomSubset"), IntCanonE(E[i].subset, 0))}
        L == t.loaded
        BadBack == {i \in 1..N :
                      \/ L.rows[i].x # RC!Complete(live[i]) \/ L.rows[i].s # <<0, 0, 0>>
                      \/ L.rows[i].R # RC!Code(RC!Rot(live[i]))
                      \/ L.rows[i].tomo # live[i].tomo \/ L.rows[i].cls # live[i].cls \/ L.rows[i].geom3 # live[i].sid}
    IN  IF ~P.ok \/ Len(P.blocks) # pb THEN <<"C03_FileWellFormed", 0>>
        ELSE IF blk.name # t.spell[ParticleBlock(v)] \/ (twoBlocks /\ P.blocks[1].name # t.spell["data_optics"])
             THEN <<"C03_FileBlocks", 0>>
        ELSE IF \E c \in Needed(v) : idx[c] = 0 THEN <<"C03_FileColumns", 0>>
        ELSE IF Len(blk.rows) # N THEN <<"C03_FileRowCount", 0>>
        ELSE IF BadPose # {} THEN <<"C03_ExportPose", SetMin(BadPose)>>
        ELSE IF BadIdent # {} THEN <<"C03_Identity", SetMin(BadIdent)>>
        ELSE IF BadHalf # {} THEN <<"C03_HalfSets", SetMin(BadHalf)>>
        ELSE IF ~L.ok THEN <<"C03_LoadBack", 0>>
        ELSE IF ~L.valid THEN <<"C03_RoundTrip", 0>>              \* a loaded value is off the lattice / not finite / not a cube rotation
        ELSE IF Len(L.rows) # N THEN <<"C03_RoundTripCount", 0>>
        ELSE IF BadBack # {} THEN <<"C03_RoundTrip", SetMin(BadBack)>>
        ELSE IF ~RC!IdsOK(L.ids, [i \in 1..N |-> E[i].subset]) THEN <<"C03_HalfSets", 0>>
        ELSE <<"none", 0>>

AllLeq(seq, b) == \A i \in 1..Len(seq) : seq[i] <= b

ResidVerdict(t) ==
    IF ~t.rows_ok THEN <<"C03_Identity", 0>>
    ELSE IF ~AllLeq(t.export_pos, PosTol) \/ ~AllLeq(t.export_rot, RotTol) THEN <<"C03_ExportPose", 0>>
    ELSE IF ~AllLeq(t.import_pos, PosTol) \/ ~AllLeq(t.import_rot, RotTol) THEN <<"C03_ImportPose", 0>>
    ELSE IF ~AllLeq(t.trip_pos, PosTol) \/ ~AllLeq(t.trip_rot, RotTol) THEN <<"C03_RoundTrip", 0>>
    ELSE IF ~AllLeq(t.file_pos, FilePosTol) \/ ~AllLeq(t.file_rot, FileRotTol) THEN <<"C03_RoundTrip", 1>>
    ELSE <<"none", 0>>

Verdict(t) == CASE t.kind = "file" -> FileVerdict(t)
                [] t.kind = "ids" -> IF RC!IdsOK(t.ids, t.subsets) THEN <<"none", 0>> ELSE <<"C03_HalfSets", 0>>
                [] t.kind = "resid" -> ResidVerdict(t)

TraceInit == tid \in 1..Len(Traces) /\ done = FALSE /\ clause = "none" /\ at = 0
TraceNext == /\ ~done
             /\ LET v == Verdict(Traces[tid]) IN clause' = v[1] /\ at' = v[2]
             /\ done' = TRUE /\ UNCHANGED tid
TraceSpec == TraceInit /\ [][TraceNext]_vars
Report == \/ ~done
          \/ PrintT(<<"VERDICT", ToJson([tid |-> tid, ok |-> clause = "none", clause |-> clause, particle |-> at])>>)
=============================================================================

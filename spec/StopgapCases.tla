---------------------------- MODULE StopgapCases ----------------------------
(* StopgapConv.tla on particle lists drawn by the driver (seeded; up to 300 particles, non-sequential subtomogram
   numbers, 0-2 list operations between construction and conversion).  Each case names the path it takes: in memory (export, import) or through a file (write, load). *)
EXTENDS StopgapConv, IOUtils

Cases == ndJsonDeserialize(IOEnv.CASE_FILE)

CaseInit == /\ cid \in 1..Len(Cases)
            /\ rows = ApplyHist(Cases[cid].rows, Cases[cid].hist)      \* the list as it is when the conversion is called
            /\ sg = <<>> /\ back = <<>> /\ pc = "list" /\ op = [name |-> "init"]

CaseNext == LET c == Cases[cid]
            IN  \/ c.path = "mem" /\ (Export(c.reset) \/ Import)
                \/ c.path = "file" /\ (Write(c.update, c.reset) \/ Load)
                \/ c.path = "obj" /\ (Export(c.reset) \/ Import \/ EditLoaded(c.edit) \/ Reexport(c.reset))
                \/ c.path = "fobj" /\ (Write(c.update, c.reset) \/ Load \/ EditLoaded(c.edit) \/ Reexport(c.reset))
=============================================================================

----------------------------- MODULE NearestNbr -----------------------------
(***************************************************************************)
(* C18 - nearest-neighbour analysis (nnana.get_nn_stats).                  *)
(*                                                                         *)
(* Two particle lists A (queries) and B (candidates).  A particle is       *)
(*   [sid, t, p, R]: subtomogram number, tomogram, complete position on    *)
(*   the 1/8 voxel lattice (integers), orientation in the cube group.      *)
(* The analysis is a derived value of the state: for every query particle  *)
(* the min(k, #candidates) closest particles of B in the same tomogram, in *)
(* ascending order, each with squared distance, world offset, offset in    *)
(* the query's own frame (inverse orientation applied), angular distance   *)
(* and relative orientation.  The only action is a rigid motion of one     *)
(* whole tomogram (both lists): p -> Q p + v, R -> Q R.                    *)
(*                                                                         *)
(* Tomograms and subtomogram numbers are identifiers: only equality counts.  *)
(* The driver names the tomograms 1, 2, 3 of the scopes by arbitrary numbers  *)
(* (0, large consecutive numbers such as 240115 / 240116, 999999 / 1000000). *)
(*                                                                         *)
(* Distance ties are excluded by the property; Init only admits tie-free   *)
(* configurations (rigid motions preserve that).                           *)
(***************************************************************************)
EXTENDS Integers, Sequences, FiniteSets, TLC, Json, Cube

CONSTANTS
    Configs,        \* set of initial configurations [A, B, k, px]; px = <<num, den>> (pixel size, a positive rational)
    MoveRots,       \* subset of Cube!All offered to Move
    MoveShifts,     \* set of translation vectors (1/8 voxel)
    MaxDepth,
    EmitMode        \* "none" | "st" (every state with its table)

VARIABLES A, B, k, px, op, d,
          T               \* the analysis of the current lists (history-free: always Table(A, B, k), see TableIsDerived)
vars == <<A, B, k, px, op, d, T>>

-----------------------------------------------------------------------------
\* the oracle

Sub(u, v) == [i \in 1..3 |-> u[i] - v[i]]
Add(u, v) == [i \in 1..3 |-> u[i] + v[i]]
D2(a, b) == Dot(Sub(b.p, a.p), Sub(b.p, a.p))

Min(x, y) == IF x <= y THEN x ELSE y

\* candidates of query a: indices of the particles of the second list in the same tomogram
Cands(a, lb) == { j \in DOMAIN lb : lb[j].t = a.t }

TieFree(la, lb) == \A i \in DOMAIN la : \A j1, j2 \in Cands(la[i], lb) :
                       j1 # j2 => D2(la[i], lb[j1]) # D2(la[i], lb[j2])

Tomos(l) == { l[i].t : i \in DOMAIN l }

\* 1-based rank of candidate j for query a (strict, ties excluded)
Rank(a, lb, j) == Cardinality({ j2 \in Cands(a, lb) : D2(a, lb[j2]) < D2(a, lb[j]) }) + 1

AngDist(r1, r2) == Angle(Mul(Inv(r1), r2))

Row(a, b) == LET off == Sub(b.p, a.p)
                 rel == Mul(Inv(a.R), b.R)
             IN  [q |-> a.sid, nn |-> b.sid, nnt |-> b.t, d2 |-> D2(a, b), off |-> off,
                  foff |-> Apply(Inv(a.R), off), ang |-> AngDist(a.R, b.R), rel |-> Code(rel), relz |-> ZAxis(rel)]

\* the neighbours of one query, closest first
KNN(a, lb, kk) == LET c == Cands(a, lb)
                      m == Min(kk, Cardinality(c))
                  IN  [r \in 1..m |-> Row(a, lb[CHOOSE j \in c : Rank(a, lb, j) = r])]

\* the whole analysis: one neighbour sequence per query particle (empty when its tomogram has no candidate)
Table(la, lb, kk) == [i \in DOMAIN la |-> KNN(la[i], lb, kk)]

-----------------------------------------------------------------------------
\* the state machine

MoveP(x, t, Q, v) == IF x.t = t THEN [x EXCEPT !.p = Add(Apply(Q, x.p), v), !.R = Mul(Q, x.R)] ELSE x

Init == /\ \E c \in Configs : A = c.A /\ B = c.B /\ k = c.k /\ px = c.px
        /\ op = [name |-> "init"]
        /\ d = 0
        /\ TieFree(A, B)
        /\ Tomos(A) \cap Tomos(B) # {}       \* scope decision: lists without any common tomogram are not analysed
        /\ T = Table(A, B, k)

Move(t, Q, v) == /\ A' = [i \in DOMAIN A |-> MoveP(A[i], t, Q, v)]
                 /\ B' = [i \in DOMAIN B |-> MoveP(B[i], t, Q, v)]
                 /\ op' = [name |-> "move", t |-> t, q |-> Code(Q), v |-> v]
                 /\ d' = d + 1
                 /\ T' = Table(A', B', k)
                 /\ UNCHANGED <<k, px>>

Next == /\ d < MaxDepth
        /\ \E t \in Tomos(A) \cup Tomos(B), Q \in MoveRots, v \in MoveShifts : Move(t, Q, v)

Spec == Init /\ [][Next]_vars

-----------------------------------------------------------------------------
\* clauses

TypeOK == /\ \A i \in DOMAIN A : A[i].R \in All
          /\ \A i \in DOMAIN B : B[i].R \in All
          /\ k \in 1..5 /\ px[1] > 0 /\ px[2] > 0

\* the variable T is nothing but the analysis of the current lists: the same lists (the same list objects handed over a
\* second time, in memory or as files, with any row labels / column order / integer storage) give the same table, and
\* analysing does not change the lists (there is no analysis action: only Move changes A and B)
C18_TableIsDerived == T = Table(A, B, k)

\* tie-freeness survives rigid motion (so the table is well defined in every reachable state)
C18_TiesStayExcluded == TieFree(A, B)

C18_Count == \A i \in DOMAIN A : Len(T[i]) = Min(k, Cardinality(Cands(A[i], B)))

C18_SameTomogramOnly == \A i \in DOMAIN A : \A r \in DOMAIN T[i] :
                            T[i][r].nnt = A[i].t /\ \E j \in Cands(A[i], B) : B[j].sid = T[i][r].nn /\ T[i][r].q = A[i].sid

\* every candidate that is not reported is strictly farther than every reported one; reported ones are distinct
C18_Optimal == \A i \in DOMAIN A :
                   LET rep == { T[i][r].nn : r \in DOMAIN T[i] } IN
                   /\ Cardinality(rep) = Len(T[i])
                   /\ \A j \in Cands(A[i], B) : B[j].sid \notin rep =>
                          \A r \in DOMAIN T[i] : D2(A[i], B[j]) > T[i][r].d2

C18_Ascending == \A i \in DOMAIN A : \A r \in DOMAIN T[i] : r > 1 => T[i][r - 1].d2 < T[i][r].d2

\* the row payload is what the statement says it is
C18_Payload == \A i \in DOMAIN A : \A r \in DOMAIN T[i] :
                   LET row == T[i][r]
                       b == B[CHOOSE j \in Cands(A[i], B) : B[j].sid = row.nn]
                   IN  /\ row.d2 = Dot(row.off, row.off)
                       /\ Add(A[i].p, row.off) = b.p
                       /\ Apply(A[i].R, row.foff) = row.off                 \* particle frame: R_a . foff = off
                       /\ Dot(row.foff, row.foff) = row.d2
                       /\ Mul(A[i].R, FromCode(row.rel)) = b.R              \* R_a . rel = R_b
                       /\ row.ang = Angle(FromCode(row.rel))

\* rigid motion of a tomogram: neighbours, distances, particle-frame offsets, angular distances and relative
\* orientations are unchanged; the world offset turns with Q in the moved tomogram
C18_MotionInvariant ==
    [][op'.name = "move" =>
         LET T2 == T' IN
         \A i \in DOMAIN A : /\ Len(T2[i]) = Len(T[i])
                             /\ \A r \in DOMAIN T[i] :
                                   /\ T2[i][r].nn = T[i][r].nn /\ T2[i][r].d2 = T[i][r].d2
                                   /\ T2[i][r].foff = T[i][r].foff /\ T2[i][r].ang = T[i][r].ang
                                   /\ T2[i][r].rel = T[i][r].rel
                                   /\ T2[i][r].off = IF A[i].t = op'.t THEN Apply(FromCode(op'.q), T[i][r].off)
                                                     ELSE T[i][r].off]_vars

-----------------------------------------------------------------------------
\* emission: every explored state with the analysis the specification derives from it
PL(l) == [i \in DOMAIN l |-> [sid |-> l[i].sid, t |-> l[i].t, p |-> l[i].p, r |-> Code(l[i].R)]]

EmitST == \/ EmitMode # "st"
          \/ PrintT(ToJson([A |-> PL(A), B |-> PL(B), k |-> k, px |-> px, op |-> op, d |-> d, table |-> T]))
=============================================================================

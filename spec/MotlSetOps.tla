----------------------------- MODULE MotlSetOps -----------------------------
(***************************************************************************)
(* C08 - particle-list set algebra and identifier discipline.              *)
(*                                                                         *)
(* Constant-level part: a particle table is a sequence of rows             *)
(*     [sid, tomo, obj, score, cls, tag]                                   *)
(* sid/tomo/obj/cls = subtomo_id / tomo_id / object_id / class (integers), *)
(* score = rank token of the score (larger token = larger score), tag =    *)
(* token standing for the 15 remaining fields of the 20-field table (the   *)
(* interpretation expands a tag to 15 concrete values, the projection      *)
(* recovers it only if all 15 are bit-identical).  Tags are unique inside  *)
(* the union of the two registers (kept by MotlSet.tla).                   *)
(*                                                                         *)
(* Section 1 defines the nine operations as functions on tables (the       *)
(* row-set model the property asks for).  Section 2 states the property    *)
(* clauses as predicates over (input table(s), parameters, result) that do *)
(* not mention the functions of section 1: MotlSet.tla asserts them as     *)
(* action properties of the operations (L1) and MotlSetTrace.tla evaluates *)
(* them on results observed from the implementation (L3).                  *)
(***************************************************************************)
EXTENDS Integers, Sequences, FiniteSets, TLC

Get(r, f) == CASE f = "sid" -> r.sid [] f = "tomo" -> r.tomo [] f = "obj" -> r.obj
               [] f = "cls" -> r.cls [] f = "score" -> r.score

Range(s) == { s[i] : i \in DOMAIN s }
ColVals(T, f) == { Get(T[i], f) : i \in DOMAIN T }
Tags(T) == { T[i].tag : i \in DOMAIN T }

SetMin(S) == CHOOSE x \in S : \A y \in S : x <= y
SetMax(S) == CHOOSE x \in S : \A y \in S : x >= y

\* ascending sequence of a finite set of integers (linear in the value range)
SortSeqOfSet(S) == IF S = {} THEN <<>>
                   ELSE LET lo == SetMin(S)
                            hi == SetMax(S)
                        IN  SelectSeq([k \in 1..(hi - lo + 1) |-> lo + k - 1], LAMBDA x : x \in S)

Sel(T, f, v) == SelectSeq(T, LAMBDA r : Get(r, f) = v)

\* distinct values of a column in order of first appearance
FirstIdx(T, f) == { i \in DOMAIN T : \A j \in 1..(i - 1) : Get(T[j], f) # Get(T[i], f) }
DistinctSeq(T, f) == LET fi == FirstIdx(T, f)
                         idx == SelectSeq([i \in DOMAIN T |-> i], LAMBDA i : i \in fi)
                     IN  [k \in DOMAIN idx |-> Get(T[idx[k]], f)]

-----------------------------------------------------------------------------
(* 1. The operations *)

\* get_motl_subset(vals, f): rows with f = vals[1], then rows with f = vals[2], ... (vals pairwise distinct)
RECURSIVE SubsetFrom(_, _, _, _)
SubsetFrom(T, f, vals, i) == IF i > Len(vals) THEN <<>> ELSE Sel(T, f, vals[i]) \o SubsetFrom(T, f, vals, i + 1)
SubsetOf(T, f, vals) == SubsetFrom(T, f, vals, 1)

\* remove_feature(f, vals)
RemoveOf(T, f, vals) == SelectSeq(T, LAMBDA r : Get(r, f) \notin Range(vals))

\* split_by_feature(f): one part per distinct value, first-appearance order
SplitOf(T, f) == LET dv == DistinctSeq(T, f) IN [k \in DOMAIN dv |-> Sel(T, f, dv[k])]

\* get_motl_intersection(T1, T2, feature_id = f); default field: the subtomogram number
IntersectOfBy(T1, T2, f) == LET ids == ColVals(T2, f) IN SelectSeq(T1, LAMBDA r : Get(r, f) \in ids)
IntersectOf(T1, T2) == IntersectOfBy(T1, T2, "sid")

\* drop_duplicates(dupf, "score", asc): one row per value of dupf, best score (asc: lowest), first such row;
\* the result is ordered by the value of dupf
BestIdx(T, dupf, asc, v) ==
    LET cand == { i \in DOMAIN T : Get(T[i], dupf) = v }
        top  == { i \in cand : \A j \in cand : IF asc THEN T[i].score <= T[j].score ELSE T[i].score >= T[j].score }
    IN  SetMin(top)
\* distinct values of a column in ascending order (independent of the magnitude of the values)
SortedDistinct(T, f) ==
    LET col == [i \in DOMAIN T |-> Get(T[i], f)]
        srt == SortSeq(col, LAMBDA a, b : a < b)
        keep == { k \in DOMAIN srt : k = 1 \/ srt[k] # srt[k - 1] }
        idx == SelectSeq([k \in DOMAIN srt |-> k], LAMBDA k : k \in keep)
    IN  [m \in DOMAIN idx |-> srt[idx[m]]]
DropDupOf(T, dupf, asc) == LET vs == SortedDistinct(T, dupf)
                           IN  [k \in DOMAIN vs |-> T[BestIdx(T, dupf, asc, vs[k])]]

\* object-number shift used by both merges: an input whose smallest object number does not exceed the running
\* maximum is shifted just above it; empty inputs are skipped; any number of inputs
ShiftObj(T, add) == IF T = <<>> THEN T
                    ELSE LET mn == SetMin(ColVals(T, "obj"))
                         IN  IF mn <= add THEN [i \in DOMAIN T |-> [T[i] EXCEPT !.obj = @ + (add - mn + 1)]] ELSE T
RECURSIVE ConcatFrom(_, _, _)
ConcatFrom(Ins, k, add) == IF k > Len(Ins) THEN <<>>
                           ELSE LET S == ShiftObj(Ins[k], add)
                                    nx == IF S = <<>> THEN add ELSE SetMax(ColVals(S, "obj"))
                                IN  S \o ConcatFrom(Ins, k + 1, nx)
ConcatShift(Ins) == ConcatFrom(Ins, 1, 0)

RenumberOf(T) == [i \in DOMAIN T |-> [T[i] EXCEPT !.sid = i]]

MergeRenumberOf(Ins) == RenumberOf(ConcatShift(Ins))
MergeDropDupOf(Ins) == DropDupOf(ConcatShift(Ins), "sid", FALSE)

\* renumber_objects_sequentially(start): tomograms in ascending order, inside a tomogram the object numbers in
\* order of first appearance, numbers running on from tomogram to tomogram
TomoObj(T) == { <<T[i].tomo, T[i].obj>> : i \in DOMAIN T }
FirstPos(T, t, o) == SetMin({ j \in DOMAIN T : T[j].tomo = t /\ T[j].obj = o })
RenumberObjectsOf(T, start) ==
    LET pairs == TomoObj(T)
        fp == [p \in pairs |-> FirstPos(T, p[1], p[2])]
        num == [p \in pairs |-> start - 1 + Cardinality({ q \in pairs : q[1] < p[1] \/ (q[1] = p[1] /\ fp[q] <= fp[p]) })]
    IN  [i \in DOMAIN T |-> [T[i] EXCEPT !.obj = num[<<T[i].tomo, T[i].obj>>]]]

-----------------------------------------------------------------------------
(* 2. The property clauses, as predicates on (inputs, parameters, result) *)

Count(T, r) == Cardinality({ i \in DOMAIN T : T[i] = r })
Pos(vals, v) == SetMin({ i \in DOMAIN vals : vals[i] = v })

\* the row of a pool (set of rows) that carries a tag; tags are unique inside the pool
RowOfTag(pool, tg) == CHOOSE r \in pool : r.tag = tg

\* "a subset holds exactly the matching rows (grouped by requested value, original order within each)"
SubsetExact(T, f, vals, P) ==
    /\ \A i \in DOMAIN P : Get(P[i], f) \in Range(vals)
    /\ \A i, j \in DOMAIN P : i < j => Pos(vals, Get(P[i], f)) <= Pos(vals, Get(P[j], f))
    /\ \A v \in Range(vals) : Sel(P, f, v) = Sel(T, f, v)

\* "splitting by a field partitions the list": every part is one value class, classes are not repeated,
\* and every row of the list is in exactly one part (with its multiplicity)
SplitPartitions(T, f, parts) ==
    /\ \A k \in DOMAIN parts : parts[k] # <<>> /\ Cardinality(ColVals(parts[k], f)) = 1
    /\ \A k, m \in DOMAIN parts : k # m => ColVals(parts[k], f) # ColVals(parts[m], f)
    /\ \A v \in ColVals(T, f) : \E k \in DOMAIN parts :
           /\ ColVals(parts[k], f) = {v}
           /\ Len(parts[k]) = Len(Sel(T, f, v))
           /\ \A r \in Range(parts[k]) : Count(parts[k], r) = Count(T, r)
    /\ \A k \in DOMAIN parts : ColVals(parts[k], f) \subseteq ColVals(T, f)

\* "removal and selection are complementary": the kept rows are exactly the rows no selection by vals returns
RemoveComplementsSubset(T, f, vals, P) ==
    /\ \A i \in DOMAIN P : Get(P[i], f) \notin Range(vals)
    /\ \A r \in Range(T) \cup Range(P) :
           Count(P, r) = IF Get(r, f) \in Range(vals) THEN 0 ELSE Count(T, r)
    /\ Len(P) + Len(SelectSeq(T, LAMBDA r : Get(r, f) \in Range(vals))) = Len(T)

\* "intersection keeps exactly the first list's rows whose id occurs in the second" (each at most once per own
\* occurrence)
IntersectionExactBy(T1, T2, f, P) ==
    /\ \A r \in Range(T1) \cup Range(P) :
           Count(P, r) = IF Get(r, f) \in ColVals(T2, f) THEN Count(T1, r) ELSE 0
    /\ Len(P) = Len(SelectSeq(T1, LAMBDA r : Get(r, f) \in ColVals(T2, f)))
IntersectionExact(T1, T2, P) == IntersectionExactBy(T1, T2, "sid", P)

\* "duplicate dropping keeps exactly one best-scoring row per id"
DropDupOneBest(T, dupf, asc, P) ==
    /\ ColVals(P, dupf) = ColVals(T, dupf)
    /\ Len(P) = Cardinality(ColVals(T, dupf))
    /\ \A i \in DOMAIN P :
          /\ P[i] \in Range(T)
          /\ \A j \in DOMAIN T : Get(T[j], dupf) = Get(P[i], dupf) =>
                 IF asc THEN P[i].score <= T[j].score ELSE P[i].score >= T[j].score

\* rows of a merge result traced back to the inputs by tag; agreement on every field the merge may not touch
SameBut(r, q, touched) == /\ r.tag = q.tag /\ r.tomo = q.tomo /\ r.score = q.score /\ r.cls = q.cls
                          /\ ("sid" \in touched \/ r.sid = q.sid)
                          /\ ("obj" \in touched \/ r.obj = q.obj)

\* the inputs of a merge: a sequence of tables with pairwise disjoint tags
AllRows(Ins) == UNION { Range(Ins[k]) : k \in DOMAIN Ins }
AllTags(Ins) == UNION { Tags(Ins[k]) : k \in DOMAIN Ins }
TotalLen(Ins) == Cardinality(UNION { { <<k, i>> : i \in DOMAIN Ins[k] } : k \in DOMAIN Ins })
SrcOf(Ins, tg) == CHOOSE k \in DOMAIN Ins : tg \in Tags(Ins[k])

\* object numbers of a merged table: grouping kept inside each input, no number shared by two inputs
ObjectsKeptApart(Ins, P) ==
    LET src == [tg \in Tags(P) |-> SrcOf(Ins, tg)]
        old == [tg \in Tags(P) |-> RowOfTag(Range(Ins[src[tg]]), tg).obj]
    IN  \A i, j \in DOMAIN P :
            IF src[P[i].tag] = src[P[j].tag]
            THEN (P[i].obj = P[j].obj) <=> (old[P[i].tag] = old[P[j].tag])
            ELSE P[i].obj # P[j].obj

\* "merging with renumbering yields subtomogram numbers 1..N and object numbers that never collide across
\* inputs while keeping each input's grouping" - any number of inputs
MergeNumbers(Ins, P) ==
    /\ Len(P) = TotalLen(Ins)
    /\ Tags(P) = AllTags(Ins)
    /\ Cardinality(Tags(P)) = Len(P)
    /\ ColVals(P, "sid") = 1..Len(P)
    /\ \A i \in DOMAIN P : SameBut(P[i], RowOfTag(AllRows(Ins), P[i].tag), {"sid", "obj"})
    /\ ObjectsKeptApart(Ins, P)

\* merge-and-drop-duplicates: one best-scoring row per subtomogram number of the union, rows otherwise intact
\* (object numbers may be shifted: grouping inside an input kept, inputs kept apart)
MergeDropDupOneBest(Ins, P) ==
    LET U == AllRows(Ins) IN
    /\ ColVals(P, "sid") = { r.sid : r \in U }
    /\ Len(P) = Cardinality({ r.sid : r \in U })
    /\ Tags(P) \subseteq AllTags(Ins)
    /\ Cardinality(Tags(P)) = Len(P)
    /\ \A i \in DOMAIN P :
          /\ SameBut(P[i], RowOfTag(U, P[i].tag), {"obj"})
          /\ \A r \in U : r.sid = P[i].sid => P[i].score >= r.score
    /\ ObjectsKeptApart(Ins, P)

\* renumber_particles: numbers 1..N, nothing else touched
ParticlesRenumbered(T, P) ==
    /\ Len(P) = Len(T) /\ Tags(P) = Tags(T) /\ Cardinality(Tags(P)) = Len(P)
    /\ ColVals(P, "sid") = 1..Len(P)
    /\ \A i \in DOMAIN P : SameBut(P[i], RowOfTag(Range(T), P[i].tag), {"sid"})

\* "sequential object renumbering keeps the (tomogram, object) grouping under consecutive numbers"
ObjectsSequential(T, start, P) ==
    /\ Len(P) = Len(T) /\ Tags(P) = Tags(T) /\ Cardinality(Tags(P)) = Len(P)
    /\ \A i \in DOMAIN P : SameBut(P[i], RowOfTag(Range(T), P[i].tag), {"obj"})
    /\ \A i, j \in DOMAIN P :
          LET a == RowOfTag(Range(T), P[i].tag)
              b == RowOfTag(Range(T), P[j].tag)
          IN  (P[i].obj = P[j].obj) <=> (a.tomo = b.tomo /\ a.obj = b.obj)
    /\ ColVals(P, "obj") = start..(start + Cardinality(TomoObj(T)) - 1)

\* "no other field of any surviving row has changed": every result row is, up to the identifier columns the
\* operation is allowed to rewrite, a row of the input pool
TagsIntact(pool, touched, P) ==
    \A i \in DOMAIN P : \E r \in pool : SameBut(P[i], r, touched)

\* "the table still has exactly the 20 fields"
MotlFields == { "score", "geom1", "geom2", "subtomo_id", "tomo_id", "object_id", "subtomo_mean", "x", "y", "z",
                "shift_x", "shift_y", "shift_z", "geom3", "geom4", "geom5", "phi", "psi", "theta", "class" }
Schema(cols) == Len(cols) = 20 /\ Range(cols) = MotlFields
=============================================================================

------------------------------ MODULE DoseTrace ------------------------------
(***************************************************************************)
(* C16, code -> spec.  The driver filters stacks with                      *)
(* cryocat.tiltstack.dose_filter (impulse images: the DFT of the output is *)
(* the gain; random images and plane waves: agreement, linearity, mean;    *)
(* filtering twice: composition), converts the measured gains to           *)
(* attenuation exponents -ln(gain) x 1000 (clamped) and records one table  *)
(* per stack in the format of DoseClauses.  This module evaluates the      *)
(* clause set of the property on every recorded table: one Judge step per  *)
(* trace, many traces per run.                                             *)
(***************************************************************************)
EXTENDS DoseClauses, Json, IOUtils

Traces == ndJsonDeserialize(IOEnv.TRACE_FILE)
VARIABLES tid, verdict
vars == <<tid, verdict>>

Judge(t) == LET f == Failing(t) IN [ok |-> f = "none", clause |-> f,
                                    calib |-> IF f = "none" THEN CalibrationPoints(t) ELSE 0]

TraceInit == tid \in 1 .. Len(Traces) /\ verdict = [ok |-> TRUE, clause |-> "pending", calib |-> 0]
TraceNext == verdict.clause = "pending" /\ verdict' = Judge(Traces[tid]) /\ UNCHANGED tid
TraceSpec == TraceInit /\ [][TraceNext]_vars

Report == \/ verdict.clause = "pending"
          \/ PrintT(<<"VERDICT", ToJson([tid |-> tid, ok |-> verdict.ok, clause |-> verdict.clause, calib |-> verdict.calib])>>)
=============================================================================

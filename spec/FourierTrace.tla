---------------------------- MODULE FourierTrace ----------------------------
(***************************************************************************)
(* C12, code -> spec.  For a configuration (box n, low-pass cutoff rl with *)
(* edge fl = 4 sigma, high-pass cutoff rh with edge fh) the driver runs    *)
(* cryomap.lowpass(rl, fl), highpass(rl, fl), lowpass(rh, fh) and          *)
(* bandpass(lp = (rl, fl), hp = (rh, fh)) on random real maps and on pure  *)
(* plane waves and records                                                  *)
(*   lp, hp, lp2, bp   the measured transfer functions DFT(out)/DFT(in),   *)
(*                     real part x 1e6, as arrays indexed like the DFT     *)
(*   real              every returned array has a real dtype and the shape *)
(*                     of the input                                        *)
(*   imax              max |Im gain| x 1e6 over all filters / frequencies  *)
(*   spread            max difference between the gain tables measured on  *)
(*                     two independent random maps                         *)
(*   pw, leak          plane waves: max difference between the plane-wave  *)
(*                     gain and the table, max amplitude outside +-k       *)
(*   lin, shift        residuals of F(a + 2b) = F(a) + 2 F(b) and of       *)
(*                     F(roll(a)) = roll(F(a)), relative, x 1e6            *)
(* (all clamped to +-2e6).  Kind "res": hard-edged filters whose cutoff    *)
(* was given as resolution + pixel size.  This module decides every        *)
(* clause of the statement on these tables with the integer radius         *)
(* predicates of FourierGain.  One Judge step per trace.                   *)
(***************************************************************************)
EXTENDS FourierGain, Json, IOUtils

CONSTANTS Tol,        \* 1  = 1e-6: exact laws, spreads, hard edge
          SoftTol,    \* One / Zero regions of a soft edge (x 1e-6)
          F32Tol      \* residuals of single-precision input maps (x 1e-6)

Traces == ndJsonDeserialize(IOEnv.TRACE_FILE)
VARIABLES tid, verdict
vars == <<tid, verdict>>

M == 1000000
At(G, n, k) == G[Idx(k[1], n[1]) + 1][Idx(k[2], n[2]) + 1][Idx(k[3], n[3]) + 1]
DimsOK(G, n) == Len(G) = n[1] /\ \A a \in 1..n[1] : Len(G[a]) = n[2] /\ \A b \in 1..n[2] : Len(G[a][b]) = n[3]
Near(x, y, tol) == Abs(x - y) <= tol
Zero3 == <<0, 0, 0>>

\* ---- offending frequencies per clause
BadRange(G, n)        == {k \in Freq(n) : At(G, n, k) < 0 \/ At(G, n, k) > M}
BadHardLP(G, n, r)    == {k \in Freq(n) : At(G, n, k) # (IF HardOne(k, r) THEN M ELSE 0)}
BadHardHP(G, n, r)    == {k \in Freq(n) : At(G, n, k) # (IF HardOne(k, r) THEN 0 ELSE M)}
BadHardBP(G, n, rl, rh) == {k \in Freq(n) : At(G, n, k) # (IF HardOne(k, rl) /\ ~HardOne(k, rh) THEN M ELSE 0)}
BadSoft(G, n, r, f)   == {k \in Freq(n) : \/ One(k, r, f) /\ At(G, n, k) < M - SoftTol
                                          \/ Zero(k, r, f) /\ At(G, n, k) > SoftTol}
BadRay(G, n)          == {k \in Freq(n) : k # Zero3 /\ At(G, n, k) > At(G, n, Prev(k)) + Tol}
BadSym(G, n)          == {k \in Freq(n) : \E m \in Mirrors(n, k) : ~Near(At(G, n, m), At(G, n, k), Tol)}
BadComplement(H, L, n) == {k \in Freq(n) : ~Near(At(H, n, k) + At(L, n, k), M, Tol)}
BadBand(B, L, L2, n)  == {k \in Freq(n) : ~Near(At(B, n, k), At(L, n, k) - At(L2, n, k), 2 * Tol)}

V(ok, clause, w) == [ok |-> ok, clause |-> clause, witness |-> w]
Pick(S) == CHOOSE x \in S : TRUE
\* first non-empty offender set of a list <<clause, set>>
FirstBad(list) == LET bad == {i \in DOMAIN list : list[i][2] # {}}
                  IN  IF bad = {} THEN V(TRUE, "none", <<>>)
                      ELSE LET i == CHOOSE x \in bad : \A y \in bad : x <= y
                           IN  V(FALSE, list[i][1], Pick(list[i][2]))

JudgeFilt(t) ==
    LET n == t.n IN
    IF ~(t.rl >= 1 /\ t.rh >= 1 /\ t.fl \in 0..16 /\ t.fh \in 0..16 /\ t.form \in {"c", "f", "strided", "ro"} /\ t.hist \in BOOLEAN)
        THEN V(FALSE, "malformed_request", <<>>)
    ELSE IF ~t.real \/ ~(DimsOK(t.lp, n) /\ DimsOK(t.hp, n) /\ DimsOK(t.lp2, n) /\ DimsOK(t.bp, n))
        THEN V(FALSE, "C12_RealValuedSameShape", <<>>)
    ELSE IF t.imax > Tol THEN V(FALSE, "C12_RealValuedSameShape", <<>>)
    ELSE IF t.spread > Tol \/ t.pw > Tol \/ t.leak > Tol \/ t.lin > Tol THEN V(FALSE, "C12_LinearDiagonal", <<>>)
    ELSE IF t.shift > Tol THEN V(FALSE, "C12_CommutesWithShifts", <<>>)
    \* a filter is a function of its arguments: repeating a call after the caller overwrote the returned array gives the
    \* same map (rep), results handed out earlier are not changed by later calls (keep), arguments are left untouched
    ELSE IF t.rep > Tol \/ t.keep > Tol \/ t.argmut THEN V(FALSE, "C12_CallsAreIndependent", <<>>)
    ELSE FirstBad(<<
        <<"C12_GainRange", BadRange(t.lp, n) \cup BadRange(t.hp, n) \cup BadRange(t.lp2, n)>>,
        \* the band-pass gain is a difference; it lies in [0,1] when both edges have the same width and rh <= rl
        <<"C12_GainRange", IF t.fl = t.fh /\ t.rh <= t.rl THEN BadRange(t.bp, n) ELSE {}>>,
        <<"C12_HardEdgeIsRadialStep", IF t.fl = 0 THEN BadHardLP(t.lp, n, t.rl) \cup BadHardHP(t.hp, n, t.rl) ELSE {}>>,
        <<"C12_HardEdgeIsRadialStep", IF t.fh = 0 THEN BadHardLP(t.lp2, n, t.rh) ELSE {}>>,
        <<"C12_SoftEdgeOneZero", IF t.fl > 0 THEN BadSoft(t.lp, n, t.rl, t.fl) ELSE {}>>,
        <<"C12_SoftEdgeOneZero", IF t.fh > 0 THEN BadSoft(t.lp2, n, t.rh, t.fh) ELSE {}>>,
        <<"C12_RayMonotone", BadRay(t.lp, n) \cup BadRay(t.lp2, n)>>,
        \* sign symmetry: exact for hard edges (clause above); for soft edges claimed where the ball stays off the faces
        <<"C12_SignSymmetry", IF t.fl = 0 \/ Interior(n, t.rl) THEN BadSym(t.lp, n) \cup BadSym(t.hp, n) ELSE {}>>,
        <<"C12_SignSymmetry", IF t.fh = 0 \/ Interior(n, t.rh) THEN BadSym(t.lp2, n) ELSE {}>>,
        <<"C12_SignSymmetry", IF (t.fl = 0 \/ Interior(n, t.rl)) /\ (t.fh = 0 \/ Interior(n, t.rh)) THEN BadSym(t.bp, n) ELSE {}>>,
        <<"C12_HighpassIsComplement", BadComplement(t.hp, t.lp, n)>>,
        <<"C12_BandpassIsDifference", BadBand(t.bp, t.lp, t.lp2, n)>> >>)

\* hard-edged filter whose cutoff was given as resolution + pixel size (edge = first axis)
JudgeRes(t) ==
    LET n  == t.n
        pl == Pixels(n[1], t.px100, t.res100)
        ph == IF t.filt = "bandpass" THEN Pixels(n[1], t.px100, t.hres100) ELSE pl
    IN  IF ~PixelsDecided(n[1], t.px100, t.res100) \/ pl < 1 \/ ph < 1 \/ ph > pl
           \/ (t.filt = "bandpass" /\ ~PixelsDecided(n[1], t.px100, t.hres100))
            THEN V(FALSE, "malformed_request", <<>>)
        ELSE IF ~t.real \/ ~DimsOK(t.tab, n) THEN V(FALSE, "C12_RealValuedSameShape", <<>>)
        ELSE FirstBad(<< <<"C12_ResolutionMapsToPixels",
                           CASE t.filt = "lowpass"  -> BadHardLP(t.tab, n, pl)
                             [] t.filt = "highpass" -> BadHardHP(t.tab, n, pl)
                             [] t.filt = "bandpass" -> BadHardBP(t.tab, n, pl, ph)>> >>)

\* the same integer-valued map handed over as int16 / int32 / float32 / float64: for every input dtype the filters are
\* linear (F(3a) = 3 F(a)), low-pass + high-pass restores the map, and the gains are those of the float64 map.
\* t.runs[i] = [dt, real, lin, comp, dev] with residuals relative to max|a|, x 1e6
JudgeDtype(t) ==
    LET bad(r) == LET tol == IF r.dt \in {"int16", "int32", "float64", "bool"} THEN Tol ELSE F32Tol     \* single precision
                  IN  IF ~r.real THEN "C12_RealValuedSameShape"
                      ELSE IF r.lin > tol THEN "C12_LinearDiagonal"
                      ELSE IF r.comp > tol THEN "C12_HighpassIsComplement"
                      ELSE IF r.dev > tol THEN "C12_GainIndependentOfInputDtype"
                      ELSE "none"
        fails == {i \in DOMAIN t.runs : bad(t.runs[i]) # "none"}
    IN  IF fails = {} THEN V(TRUE, "none", <<>>)
        ELSE LET i == CHOOSE x \in fails : \A y \in fails : x <= y
             IN  V(FALSE, bad(t.runs[i]), <<i>>)

\* hard-edged low-pass at every integer cutoff of a large box (t.n up to 48 per axis): per cutoff the gain table is
\* logged loss-free as t.sweeps[i] = [r, binary, runs], runs[(a * n2 + b) + 1] = the maximal k3-intervals <<lo, hi>>
\* (frequency coordinates) of gain 1 in the column of DFT position (a, b).  Every column must be exactly the interval
\* k3^2 <= r^2 - k1^2 - k2^2: lattice points lying exactly on the sphere (Pythagorean quadruples) included.
BadColumns(sw, n) ==
    {c \in 0 .. (n[1] * n[2] - 1) :
        LET k1 == KOf(c \div n[2], n[1])
            k2 == KOf(c % n[2], n[2])
            rs == sw.runs[c + 1]
        IN  IF ColumnRoom(k1, k2, sw.r) < 0 THEN rs # <<>>
            ELSE ~(Len(rs) = 1 /\ RunIsColumn(rs[1][1], rs[1][2], k1, k2, sw.r, n[3]))}
JudgeSweep(t) ==
    IF ~t.real THEN V(FALSE, "C12_RealValuedSameShape", <<>>)
    ELSE LET bad == {i \in DOMAIN t.sweeps :
                       \/ t.sweeps[i].r < 1 \/ ~t.sweeps[i].binary \/ Len(t.sweeps[i].runs) # t.n[1] * t.n[2]
                       \/ BadColumns(t.sweeps[i], t.n) # {}}
         IN  IF bad = {} THEN V(TRUE, "none", <<>>)
             ELSE LET i == CHOOSE x \in bad : \A y \in bad : x <= y
                      sw == t.sweeps[i]
                  IN  IF ~sw.binary \/ Len(sw.runs) # t.n[1] * t.n[2] THEN V(FALSE, "C12_HardEdgeIsRadialStep", <<sw.r>>)
                      ELSE LET c == CHOOSE x \in BadColumns(sw, t.n) : TRUE
                           IN  V(FALSE, "C12_HardEdgeIsRadialStep", <<sw.r, KOf(c \div t.n[2], t.n[1]), KOf(c % t.n[2], t.n[2])>>)

Judge(t) == IF t.kind = "filt" THEN JudgeFilt(t) ELSE IF t.kind = "dtype" THEN JudgeDtype(t)
            ELSE IF t.kind = "sweep" THEN JudgeSweep(t) ELSE JudgeRes(t)

TraceInit == tid \in 1 .. Len(Traces) /\ verdict = V(TRUE, "pending", <<>>)
TraceNext == verdict.clause = "pending" /\ verdict' = Judge(Traces[tid]) /\ UNCHANGED tid
TraceSpec == TraceInit /\ [][TraceNext]_vars

Report == \/ verdict.clause = "pending"
          \/ PrintT(<<"VERDICT", ToJson([tid |-> tid, ok |-> verdict.ok, clause |-> verdict.clause, witness |-> verdict.witness])>>)
=============================================================================

------------------------------- MODULE Cube -------------------------------
(***************************************************************************)
(* The 24 proper rotations of the cube as signed permutation matrices over *)
(* the integers.  This is the exact stand-in for SO(3) in every module     *)
(* that talks about orientations (C03, C05, C06, C10, C14, C18): it        *)
(* contains every gimbal-lock case (theta in {0,180}) and is closed under  *)
(* all operations cryoCAT performs on orientations.                        *)
(*                                                                         *)
(* An element r = [p |-> <<p1,p2,p3>>, s |-> <<s1,s2,s3>>] is the matrix    *)
(* whose column j has the single non-zero entry s[j] in row p[j].          *)
(***************************************************************************)
EXTENDS Integers, Sequences, FiniteSets

Perms == { p \in [1..3 -> 1..3] : \A i, j \in 1..3 : i # j => p[i] # p[j] }

Ent(r, i, j) == IF r.p[j] = i THEN r.s[j] ELSE 0

PermSign(p) == IF p \in { <<1,2,3>>, <<2,3,1>>, <<3,1,2>> } THEN 1 ELSE -1

Det(r) == PermSign(r.p) * r.s[1] * r.s[2] * r.s[3]

SignedPerms == [p : Perms, s : [1..3 -> {-1, 1}]]

All == { r \in SignedPerms : Det(r) = 1 }

Id == [p |-> <<1,2,3>>, s |-> <<1,1,1>>]

Mul(a, b) == [p |-> [j \in 1..3 |-> a.p[b.p[j]]],
              s |-> [j \in 1..3 |-> a.s[b.p[j]] * b.s[j]]]

\* transpose = inverse for orthogonal matrices: column j of r (entry s[j] in row p[j]) becomes row j
Inv(a) == [p |-> [j \in 1..3 |-> CHOOSE k \in 1..3 : a.p[k] = j],
           s |-> [j \in 1..3 |-> a.s[CHOOSE k \in 1..3 : a.p[k] = j]]]

Apply(r, v) == [i \in 1..3 |-> Ent(r,i,1)*v[1] + Ent(r,i,2)*v[2] + Ent(r,i,3)*v[3]]

Tr(r) == Ent(r,1,1) + Ent(r,2,2) + Ent(r,3,3)

\* rotation angle in degrees: tr = 1 + 2 cos(angle)
Angle(r) == CASE Tr(r) = 3 -> 0 [] Tr(r) = 1 -> 90 [] Tr(r) = 0 -> 120 [] Tr(r) = -1 -> 180

ZAxis(r) == Apply(r, <<0,0,1>>)
XAxis(r) == Apply(r, <<1,0,0>>)

Dot(u, v) == u[1]*v[1] + u[2]*v[2] + u[3]*v[3]

\* angle between two signed unit axis vectors
AxisAngle(u, v) == CASE Dot(u,v) = 1 -> 0 [] Dot(u,v) = 0 -> 90 [] Dot(u,v) = -1 -> 180

\* quarter turns (active, right-handed)
Rz1 == [p |-> <<2,1,3>>, s |-> <<1,-1,1>>]
Rx1 == [p |-> <<1,3,2>>, s |-> <<1,1,-1>>]
Ry1 == [p |-> <<3,2,1>>, s |-> <<-1,1,1>>]

Pow(r, n) == LET m == n % 4 IN
             CASE m = 0 -> Id [] m = 1 -> r [] m = 2 -> Mul(r, r) [] m = 3 -> Mul(r, Mul(r, r))

\* scipy Rotation.from_euler("zxz", [a,b,c]) - extrinsic: first about z by a, then x by b, then z by c
\* cryoCAT: a = phi, b = theta, c = psi  (quarter-turn counts here)
FromZXZ(a, b, c) == Mul(Pow(Rz1, c), Mul(Pow(Rx1, b), Pow(Rz1, a)))

\* scipy Rotation.from_euler("ZYZ", [a,b,c]) - intrinsic (RELION rot, tilt, psi)
FromZYZi(a, b, c) == Mul(Pow(Rz1, a), Mul(Pow(Ry1, b), Pow(Rz1, c)))

Mz == [p |-> <<1,2,3>>, s |-> <<1,1,-1>>]      \* reflection (not in All)
MirrorZ(r) == Mul(Mz, Mul(r, Mz))               \* conjugation keeps det = +1

\* some quarter-turn triple that produces r (used by drivers to hand the code Euler angles)
EulerOf(r) == CHOOSE t \in (0..3) \X (0..3) \X (0..3) : FromZXZ(t[1], t[2], t[3]) = r

\* a compact code for an element: used in JSON exchanged with the drivers
Code(r) == <<r.p[1], r.p[2], r.p[3], r.s[1], r.s[2], r.s[3]>>
FromCode(c) == [p |-> <<c[1], c[2], c[3]>>, s |-> <<c[4], c[5], c[6]>>]

ASSUME CubeHas24 == Cardinality(All) = 24
\* the group laws (closure, associativity, linearity, Euler coverage) are ASSUMEs of CubeLaws.tla, checked by C06
=============================================================================

------------------------------ MODULE MC_Masks ------------------------------
(* Model-checking configurations of Masks.tla.                                                       *)
(*  - exhaustive small scope: one non-cubic box <<N1,N2,N3>> and one even box <<E1,E2,E3>> (chosen   *)
(*    by the driver from {6,7,8,9} / {6,8}), EVERY centre of the box, radii / heights / thicknesses  *)
(*    from 1 to beyond the box; all name patterns; lists of 1..3 masks from a pool + the truth-table *)
(*    masks for lists of 1..5;                                                                       *)
(*  - file scope: requests drawn by the driver (seeded) are read from IOEnv.CASE_FILE, so that TLC   *)
(*    computes the expected voxel sets of arbitrary mid-size requests as well.                       *)
EXTENDS Masks, IOUtils

CONSTANTS N1, N2, N3,         \* the non-cubic box
          E1, E2, E3,         \* the even box (ellipsoids)
          Radii,              \* sphere / cylinder radii
          Heights,            \* cylinder heights
          Thick,              \* spherical shell thicknesses
          EllRadii,           \* ellipsoid radii are drawn from EllRadii^3 (subsampled by EllPick)
          NameNums,           \* numbers used in names
          SweepMax,           \* default-centre spheres at EVERY radius 1 .. SweepMax
          CM, CR              \* centre subsampling: centres with (c1 + 2 c2 + 3 c3) % CM = CR (CM = 1: every centre)

NB == <<N1, N2, N3>>
EB == <<E1, E2, E3>>
Centres(n) == {c \in Box(n) : (c[1] + 2 * c[2] + 3 * c[3]) % CM = CR}

SphereCases == {[shape |-> "sphere", n |-> NB, c |-> c, dc |-> FALSE, r |-> r] : c \in Centres(NB), r \in Radii}
                 \cup {[shape |-> "sphere", n |-> NB, c |-> DefaultCentre(NB), dc |-> TRUE, r |-> r] : r \in Radii}

CylCases == {[shape |-> "cyl", n |-> NB, c |-> c, dc |-> FALSE, r |-> r, h |-> h] : c \in Centres(NB), r \in Radii, h \in Heights}
              \cup {[shape |-> "cyl", n |-> NB, c |-> DefaultCentre(NB), dc |-> TRUE, r |-> r, h |-> h] : r \in Radii, h \in Heights}

SShellCases == {q \in {[shape |-> "sshell", n |-> NB, c |-> c, dc |-> FALSE, r |-> r, t |-> t] :
                           c \in Centres(NB), r \in Radii, t \in Thick} : 2 * q.r >= q.t}
                 \cup {q \in {[shape |-> "sshell", n |-> NB, c |-> DefaultCentre(NB), dc |-> TRUE, r |-> r, t |-> t] :
                           r \in Radii, t \in Thick} : 2 * q.r >= q.t}

\* radii triples: all with at most... every triple whose entries are pairwise different or all equal, thinned by a residue
EllTriples == {rr \in EllRadii \X EllRadii \X EllRadii : (rr[1] + 2 * rr[2] + 3 * rr[3]) % 3 = 0 \/ (rr[1] = rr[2] /\ rr[2] = rr[3])}

EllCases == {[shape |-> "ell", n |-> EB, c |-> c, dc |-> FALSE, rr |-> rr] : c \in Centres(EB), rr \in EllTriples}
              \cup {[shape |-> "ell", n |-> EB, c |-> DefaultCentre(EB), dc |-> TRUE, rr |-> rr] : rr \in EllRadii \X EllRadii \X EllRadii}

EShellCases == {q \in {[shape |-> "eshell", n |-> EB, c |-> c, dc |-> (c = DefaultCentre(EB)), rr |-> rr, t |-> t] :
                           c \in Centres(EB), rr \in EllTriples, t \in {2, 4}} :
                      \A i \in 1..3 : q.rr[i] - q.t \div 2 >= 1}

NameCases ==
    {[shape |-> "name", kind |-> "sphere", nums |-> <<r>>, size |-> s, exp |-> 4, pad |-> 0] : r \in NameNums, s \in {0, 9, 14}}
    \cup {[shape |-> "name", kind |-> "cylinder", nums |-> <<r, h>>, size |-> s, exp |-> 4, pad |-> 0] : r \in NameNums, h \in NameNums, s \in {0, 11}}
    \cup {q \in {[shape |-> "name", kind |-> "s_shell", nums |-> <<r, t>>, size |-> 0, exp |-> 4, pad |-> 0] : r \in NameNums, t \in NameNums} :
              2 * q.nums[1] >= q.nums[2]}
    \cup {[shape |-> "name", kind |-> "ellipsoid", nums |-> <<a, b, c>>, size |-> s, exp |-> 4, pad |-> 0] :
              a \in NameNums, b \in NameNums, c \in NameNums, s \in {0, 12}}
    \cup {q \in {[shape |-> "name", kind |-> "e_shell", nums |-> <<a, b, c, t>>, size |-> s, exp |-> 4, pad |-> 0] :
              a \in NameNums, b \in NameNums, c \in NameNums, t \in {2, 4}, s \in {0, 16}} :
              \A i \in 1..3 : q.nums[i] - q.nums[4] \div 2 >= 1}

\* option spellings of the name generator: non-default mask_expansion (both parities), numbers with leading zeros
NameSpellings ==
    {[shape |-> "name", kind |-> "sphere", nums |-> <<r>>, size |-> 0, exp |-> e, pad |-> p] : r \in NameNums, e \in {0, 3, 6}, p \in {0, 1}}
    \cup {[shape |-> "name", kind |-> "cylinder", nums |-> <<r, h>>, size |-> s, exp |-> e, pad |-> 1] :
              r \in NameNums, h \in {2, 3}, s \in {0, 13}, e \in {4, 7}}
    \cup {[shape |-> "name", kind |-> "s_shell", nums |-> <<3, t>>, size |-> 0, exp |-> e, pad |-> p] : t \in {1, 2}, e \in {1, 4}, p \in {0, 1}}
    \cup {[shape |-> "name", kind |-> "ellipsoid", nums |-> <<2, 3, 1>>, size |-> 0, exp |-> e, pad |-> 1] : e \in {2, 5}}
    \cup {[shape |-> "name", kind |-> "e_shell", nums |-> <<3, 2, 4, 2>>, size |-> 0, exp |-> e, pad |-> 1] : e \in {2, 5}}
SphereSweep == {[shape |-> "sphere", n |-> NB, c |-> DefaultCentre(NB), dc |-> TRUE, r |-> r] : r \in 1 .. SweepMax}
Empty == [shape |-> "empty", n |-> NB]

\* lists of masks: a pool of overlapping shapes in the non-cubic box, every list of length 1..3 (order matters
\* for subtraction), plus the truth-table masks (every membership pattern occurs) for lists of 1..5
Pool == {[shape |-> "sphere", n |-> NB, c |-> <<2, 3, 3>>, dc |-> FALSE, r |-> 2],
         [shape |-> "sphere", n |-> NB, c |-> <<3, 3, 4>>, dc |-> FALSE, r |-> 3],
         [shape |-> "cyl", n |-> NB, c |-> <<3, 2, 1>>, dc |-> FALSE, r |-> 2, h |-> 5],
         [shape |-> "sshell", n |-> NB, c |-> <<3, 3, 3>>, dc |-> FALSE, r |-> 3, t |-> 2],
         [shape |-> "sphere", n |-> NB, c |-> <<0, 0, 0>>, dc |-> FALSE, r |-> 20],
         [shape |-> "sphere", n |-> NB, c |-> <<5, 5, 5>>, dc |-> FALSE, r |-> 1]}
Full == [shape |-> "sphere", n |-> NB, c |-> <<0, 0, 0>>, dc |-> FALSE, r |-> 20]
Mid  == [shape |-> "sphere", n |-> NB, c |-> <<3, 3, 4>>, dc |-> FALSE, r |-> 3]
TB == <<2, 4, 4>>
Bits(k) == [i \in 1..k |-> [shape |-> "bits", n |-> TB, bit |-> i]]
BitPerms == {<<1, 2, 3, 4, 5>>, <<5, 4, 3, 2, 1>>, <<3, 1, 5, 2, 4>>}
AlgebraCases ==
    {[shape |-> "algebra", n |-> NB, cont |-> "list", parts |-> <<a>>] : a \in Pool}
    \cup {[shape |-> "algebra", n |-> NB, cont |-> "list", parts |-> <<a, b>>] : a \in Pool, b \in Pool}
    \cup {[shape |-> "algebra", n |-> NB, cont |-> "tuple", parts |-> <<a, b, c>>] : a \in Pool, b \in Pool, c \in Pool}
    \cup {[shape |-> "algebra", n |-> TB, cont |-> "list", parts |-> [i \in 1..k |-> Bits(5)[p[i]]]] : k \in 1..5, p \in BitPerms}

\* the empty mask and the full mask (a sphere far larger than the box) as operands, in every position
EdgeAlgebra == {[shape |-> "algebra", n |-> NB, cont |-> c, parts |-> ps] : c \in {"list", "tuple"},
                    ps \in {<<Empty>>, <<Empty, Empty>>, <<Empty, Full>>, <<Full, Empty>>, <<Full, Full>>, <<Full, Empty, Mid>>,
                            <<Mid, Empty>>, <<Empty, Mid>>, <<Mid, Full>>, <<Full, Mid>>}}

SmallCases == SphereSweep \cup NameSpellings \cup EdgeAlgebra \cup SphereCases \cup CylCases \cup SShellCases \cup EllCases \cup EShellCases \cup NameCases \cup AlgebraCases

\* requests written by the driver, one JSON object per line
FileSeq == ndJsonDeserialize(IOEnv.CASE_FILE)
FileCases == {FileSeq[i] : i \in DOMAIN FileSeq}

\* Euclid's comparison against cross-multiplication on every small fraction (constant-level law)
ASSUME \A a \in 0..12, b \in 1..7, c \in 0..12, d \in 1..7 : FracLeq(a, b, c, d) <=> a * d <= c * b
=============================================================================

---------------------------- MODULE ChainsTrace ----------------------------
(***************************************************************************)
(* C19, code -> spec.  One trace = one call of ribana.trace_chains on a    *)
(* pair of entry / exit lists.  The driver logs                            *)
(*   parts : <<particle, tomogram>> of every input particle; a particle is *)
(*           identified by (tomogram, subtomogram number) - the numbering  *)
(*           may restart in every tomogram - and named by its position in  *)
(*           the input lists; a returned row with an unknown pair gets a   *)
(*           negative name                                                 *)
(*   link  : <<a, b, d>> for every ordered pair of different particles of  *)
(*           one tomogram whose distance exit(a) -> entry(b), computed by  *)
(*           brute force, lies in (min_distance, max_distance]; d is that  *)
(*           distance x1e5                                                 *)
(*   out   : <<subtomo id, tomogram, object, order, recorded x1e5>> for     *)
(*           every row of the returned table                               *)
(* ValidTrace of Chains.tla decides; a table that breaks clause (iii) is   *)
(* further diagnosed (Reorderable: every chain's members form a valid      *)
(* chain in another order).                                                *)
(***************************************************************************)
EXTENDS Integers, Sequences, FiniteSets, TLC, Json, IOUtils

Ch == INSTANCE Chains WITH Repair <- {"tailcut-order", "fresh-head-id"}, Instances <- {}, inst <- [n |-> 0, links |-> <<>>], tr <- <<>>, done <- {},
                           nxt <- 0, cc <- 0, err <- "", log <- <<>>

Traces == ndJsonDeserialize(IOEnv.TRACE_FILE)

VARIABLES tid, l, ok, clause, kind
vars == <<tid, l, ok, clause, kind>>

T == Traces[tid]
RangeOf(seq) == { seq[i] : i \in DOMAIN seq }
Abs(x) == IF x < 0 THEN -x ELSE x

Sids == { T.parts[k][1] : k \in DOMAIN T.parts }
TomoOf == [s \in Sids |-> T.parts[CHOOSE k \in DOMAIN T.parts : T.parts[k][1] = s][2]]
LinkD == RangeOf(T.link)
Link == { <<e[1], e[2]>> : e \in LinkD }
Out == [k \in DOMAIN T.out |-> [sid |-> T.out[k][1], tomo |-> T.out[k][2], obj |-> T.out[k][3],
                                ord |-> T.out[k][4], rec |-> T.out[k][5]]]

\* the recorded value is the brute-force distance (x1e5; both rounded, 1e-6 relative)
RecOK(a, b, r) == \E e \in LinkD : e[1] = a /\ e[2] = b /\ Abs(r - e[3]) <= 2 + (e[3] \div 1000000)

\* Lattice cases (T.lat = [E, X : integer site coordinates in list order, max2, min2 : squared integer thresholds]) put
\* distances EXACTLY on the thresholds.  There the specification itself decides which pairs are linked - the interval is
\* (min_distance, max_distance]: open below, closed above - and the relation logged by the driver has to be that one.
Sq(u, v) == (u[1] - v[1]) * (u[1] - v[1]) + (u[2] - v[2]) * (u[2] - v[2]) + (u[3] - v[3]) * (u[3] - v[3])
LatticeLink == { pq \in Sids \X Sids : \E a, b \in DOMAIN T.parts :
                    /\ a # b /\ T.parts[a][1] = pq[1] /\ T.parts[b][1] = pq[2] /\ T.parts[a][2] = T.parts[b][2]
                    /\ T.lat.min2 < Sq(T.lat.X[a], T.lat.E[b]) /\ Sq(T.lat.X[a], T.lat.E[b]) <= T.lat.max2 }
LatticeOK == ("lat" \notin DOMAIN T) \/ Link = LatticeLink

Failing == IF Cardinality(Sids) # Len(T.parts) \/ ~LatticeOK THEN "TRACE_INCONSISTENT"
           ELSE Ch!FailingClause(Out, Sids, TomoOf, Link, RecOK)

Kind(c) == IF c \in {"C19_ConsecutiveLinked", "C19_RecordedDistance"}
           THEN IF Ch!Reorderable(Out, Link, RecOK) THEN "chain_members_valid_in_another_order" ELSE "other"
           ELSE "-"

TraceInit == /\ tid \in 1..Len(Traces)
             /\ l = 1
             /\ ok = TRUE
             /\ clause = "none"
             /\ kind = "-"

TraceNext == /\ l = 1
             /\ LET c == Failing IN /\ ok' = (c = "none")
                                    /\ clause' = c
                                    /\ kind' = Kind(c)
             /\ l' = 2
             /\ UNCHANGED tid

TraceSpec == TraceInit /\ [][TraceNext]_vars

Report == \/ l = 1
          \/ PrintT(<<"VERDICT", ToJson([tid |-> tid, ok |-> ok, clause |-> clause, kind |-> kind])>>)
=============================================================================

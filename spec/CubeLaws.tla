------------------------------ MODULE CubeLaws ------------------------------
(* Group laws of the cube rotation group, checked by TLC as constant-level ASSUMEs (C06 runs this module). *)
EXTENDS Cube

ASSUME CubeEulerCovers == \A r \in All : \E t \in (0..3) \X (0..3) \X (0..3) : FromZXZ(t[1], t[2], t[3]) = r
ASSUME CubeClosed == \A a, b \in All : Mul(a, b) \in All /\ Inv(a) \in All /\ Mul(a, Inv(a)) = Id
ASSUME CubeAssociative == \A a, b, c \in All : Mul(Mul(a, b), c) = Mul(a, Mul(b, c))
ASSUME CubeLinear == \A a, b \in All : \A v \in {<<1,0,0>>, <<0,1,0>>, <<0,0,1>>, <<1,2,3>>} :
                        Apply(Mul(a, b), v) = Apply(a, Apply(b, v))

VARIABLE dummy
Init == dummy = 0
Next == dummy' = dummy
Spec == Init /\ [][Next]_dummy
=============================================================================

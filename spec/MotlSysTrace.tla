---------------------------- MODULE MotlSysTrace ----------------------------
(***************************************************************************)
(* Composition of the particle-list specifications on ONE table: mixed     *)
(* histories (pose operations of Pose.tla, set operations of MotlSetOps,   *)
(* EM file round trips) executed on one live Motl object, validated step   *)
(* by step.  This is classical trace validation with the full abstract     *)
(* state logged after every public call:                                   *)
(*     TraceNext == IsEvent(e) /\ <spec action of e relates st and e.post> *)
(*                  /\ st' = e.post                                        *)
(* The constant Scope selects which property's clauses are enforced:       *)
(*   "pose" (C05): pose operations must be the Pose.tla functions of the   *)
(*           previous logged state; other steps only re-synchronise.       *)
(*   "set"  (C08): set operations must satisfy the MotlSetOps predicates   *)
(*           and must leave every other field (incl. the pose) of every    *)
(*           surviving row untouched; pose steps only re-synchronise.      *)
(*   "sg"   (C04): a STOPGAP round trip (in memory or through a .star      *)
(*           file) must return the same particles in the same order with   *)
(*           the shared fields (numbers, score, class, position, shifts,   *)
(*           orientation) of the previous logged state.                    *)
(*   "relion" (C03): a RELION 3.0/3.1/4.0 export -> import (in memory or   *)
(*           through a STAR file) must return every particle, in order, to *)
(*           its complete position (as x, zero shift) and orientation,     *)
(*           keep tomogram number and class, and carry the subtomogram     *)
(*           number in geom3.                                              *)
(* so that a defect of one property never raises the other's alarm.        *)
(*                                                                         *)
(* A logged row is [sid, tomo, obj, cls, score, tag, x, s, r] with x, s on *)
(* the 1/8-voxel lattice and r a cube-group code.                          *)
(***************************************************************************)
EXTENDS Integers, Sequences, FiniteSets, TLC, Json, IOUtils

CONSTANT Scope

Traces == ndJsonDeserialize(IOEnv.TRACE_FILE)

VARIABLES tid, l, st, saved, ok, clause
vars == <<tid, l, st, saved, ok, clause>>

DimFun == (1 :> 48) @@ (2 :> 64) @@ (3 :> 40)

P == INSTANCE Pose WITH InitPoses <- {}, Shifts <- {}, Factors <- {}, DimZ <- DimFun, Rots <- {},
                        MaxDepth <- 0, EmitMode <- "none", ps <- <<>>, op <- <<>>, d <- 0, hist <- <<>>
S == INSTANCE MotlSetOps

Events == Traces[tid].ev

ToPose(r) == [x |-> r.x, s |-> r.s, R |-> P!FromCode(r.r), t |-> r.tomo]
ToRow(r) == [sid |-> r.sid, tomo |-> r.tomo, obj |-> r.obj, score |-> r.score, cls |-> r.cls, tag |-> r.tag]
SetTable(T) == [i \in DOMAIN T |-> ToRow(T[i])]

SameIdentity(a, b) == ToRow(a) = ToRow(b)
SamePose(a, b) == a.x = b.x /\ a.s = b.s /\ a.r = b.r

\* ---- pose steps ------------------------------------------------------------------------------
PoseImage(e, p) == CASE e.name = "update" -> P!UpdateP(p)
                     [] e.name = "scale"  -> P!ScaleP(p, <<e.num, e.den>>)
                     [] e.name = "shift"  -> P!ShiftP(p, e.v)
                     [] e.name = "rotate" -> P!RotateP(p, P!FromCode(e.q))
                     [] e.name = "flip"   -> P!FlipP(p, e.kind)

PoseNames == {"update", "scale", "shift", "rotate", "flip"}

PoseStepOK(e) ==
    /\ Len(e.post) = Len(st)
    /\ \A k \in DOMAIN st :
          LET want == PoseImage(e, ToPose(st[k]))
              got  == ToPose(e.post[k])
          IN  /\ SameIdentity(st[k], e.post[k])
              /\ P!Complete(got) = P!Complete(want)
              /\ got.R = want.R
              /\ e.name = "update" => \A i \in 1..3 : got.x[i] % 8 = 0 /\ 2 * P!Abs(got.s[i]) <= 8

\* ---- set steps -------------------------------------------------------------------------------
SetNames == {"subset", "remove", "intersect", "dropdup", "merge_renumber", "renumber_particles",
             "renumber_objects", "em_roundtrip"}

\* every surviving row keeps its pose and its other fields: found by tag in the pool of input rows
PoolRows(e) == IF e.name \in {"intersect", "merge_renumber"} THEN S!Range(st) \cup S!Range(saved) ELSE S!Range(st)
Untouched(e) == \A i \in DOMAIN e.post :
                   \E q \in PoolRows(e) : q.tag = e.post[i].tag /\ SamePose(q, e.post[i])
                                          /\ q.tomo = e.post[i].tomo /\ q.cls = e.post[i].cls /\ q.score = e.post[i].score

SetClause(e) ==
    LET A == SetTable(st)
        B == SetTable(saved)
        R == SetTable(e.post)
    IN  CASE e.name = "subset"  -> S!SubsetExact(A, e.f, e.vals, R)
          [] e.name = "remove"  -> S!RemoveComplementsSubset(A, e.f, e.vals, R)
          [] e.name = "intersect" -> S!IntersectionExact(A, B, R)
          [] e.name = "dropdup" -> S!DropDupOneBest(A, e.f, e.asc, R)
          [] e.name = "merge_renumber" -> S!MergeNumbers(<<A, B>>, R)
          [] e.name = "renumber_particles" -> S!ParticlesRenumbered(A, R)
          [] e.name = "renumber_objects" -> S!ObjectsSequential(A, e.start, R)
          [] e.name = "em_roundtrip" -> R = A          \* write_out + load: same particles, same order, same fields

\* ---- format round trips ---------------------------------------------------------------------
\* (the harness re-installs the row tags by position afterwards, so a permuted result shows as changed fields)
ConvNames == {"sg_roundtrip", "relion_roundtrip"}

SgStepOK(e) ==
    /\ Len(e.post) = Len(st)
    /\ \A k \in DOMAIN st : /\ SameIdentity(st[k], e.post[k])
                            /\ SamePose(st[k], e.post[k])

RelionStepOK(e) ==
    /\ Len(e.post) = Len(st)
    /\ Len(e.geom3) = Len(st)
    /\ \A k \in DOMAIN st :
          LET was == ToPose(st[k])
              got == ToPose(e.post[k])
          IN  /\ e.post[k].tomo = st[k].tomo
              /\ e.post[k].cls = st[k].cls
              /\ e.geom3[k] = st[k].sid
              /\ got.x = P!Complete(was)
              /\ got.s = <<0, 0, 0>>
              /\ got.R = was.R

ClauseName(e) == CASE e.name = "sg_roundtrip" -> "C04_SharedFieldsSurvive" [] e.name = "relion_roundtrip" -> "C03_RoundTripPose" [] e.name = "subset" -> "C08_SubsetExact" [] e.name = "remove" -> "C08_RemoveComplementsSubset"
                   [] e.name = "intersect" -> "C08_IntersectionExact" [] e.name = "dropdup" -> "C08_DropDupOneBest"
                   [] e.name = "merge_renumber" -> "C08_MergeNumbers" [] e.name = "renumber_particles" -> "C08_ParticlesRenumbered"
                   [] e.name = "renumber_objects" -> "C08_ObjectsSequential" [] e.name = "em_roundtrip" -> "C01_RoundTrip"
                   [] e.name = "update" -> "C05_UpdateKeepsComplete" [] e.name = "scale" -> "C05_ScaleMultiplies"
                   [] e.name = "shift" -> "C05_ShiftMovesByOwnOrientation" [] e.name = "rotate" -> "C05_RotateComposes"
                   [] e.name = "flip" -> "C05_FlipMirrors"

\* a row the projection could not map onto the exact domain carries the code <<0,0,0,0,0,0>>; a step that starts
\* from such a state cannot be judged (it only re-synchronises), a step that produces one is rejected
Exact(T) == \A k \in DOMAIN T : T[k].r[1] # 0

Failing(e) ==
    IF ~Exact(st) THEN "none"
    ELSE IF ~Exact(e.post) /\ (\/ (Scope = "pose" /\ e.name \in PoseNames) \/ (Scope = "set" /\ e.name \in SetNames)
                              \/ (Scope = "sg" /\ e.name = "sg_roundtrip") \/ (Scope = "relion" /\ e.name = "relion_roundtrip"))
    THEN ClauseName(e)
    ELSE IF Scope = "sg" /\ e.name = "sg_roundtrip"
    THEN (IF SgStepOK(e) THEN "none" ELSE ClauseName(e))
    ELSE IF Scope = "relion" /\ e.name = "relion_roundtrip"
    THEN (IF RelionStepOK(e) THEN "none" ELSE ClauseName(e))
    ELSE IF Scope = "pose" /\ e.name \in PoseNames
    THEN (IF PoseStepOK(e) THEN "none" ELSE ClauseName(e))
    ELSE IF Scope = "set" /\ e.name \in SetNames
    THEN (IF ~e.schema_ok THEN "C08_Schema"
          ELSE IF ~Untouched(e) THEN "C08_TagsIntact"
          ELSE IF ~SetClause(e) THEN ClauseName(e)
          ELSE "none")
    ELSE "none"

TraceInit == /\ tid \in 1..Len(Traces)
             /\ l = 1
             /\ st = Traces[tid].init
             /\ saved = Traces[tid].b
             /\ ok = TRUE
             /\ clause = "none"

TraceNext == /\ ok
             /\ l <= Len(Events)
             /\ LET e == Events[l]
                    c == Failing(e)
                IN  /\ ok' = (c = "none")
                    /\ clause' = c
                    /\ st' = e.post
                    /\ UNCHANGED saved
             /\ l' = l + 1
             /\ UNCHANGED tid

TraceSpec == TraceInit /\ [][TraceNext]_vars

Report == \/ (ok /\ l <= Len(Events))
          \/ PrintT(<<"VERDICT", ToJson([tid |-> tid, ok |-> ok, clause |-> clause, step |-> l - 1])>>)
=============================================================================

---------------------------- MODULE MotlSysTrace ----------------------------
(***************************************************************************)
(* Composition of the particle-list specifications on ONE table: mixed     *)
(* histories (pose operations of Pose.tla, set operations of MotlSetOps,   *)
(* EM file round trips) executed on one live Motl object, validated step   *)
(* by step.  This is classical trace validation with the full abstract     *)
(* state logged after every public call:                                   *)
(*     TraceNext == IsEvent(e) /\ <spec action of e relates st and e.post> *)
(*                  /\ st' = e.post                                        *)
(* The constant Scope selects which property's clauses are enforced:       *)
(*   "pose" (C05): pose operations must be the Pose.tla functions of the   *)
(*           previous logged state; other steps only re-synchronise.       *)
(*   "set"  (C08): set operations must satisfy the MotlSetOps predicates   *)
(*           and must leave every other field (incl. the pose) of every    *)
(*           surviving row untouched; pose steps only re-synchronise.      *)
(*   "sg"   (C04): a STOPGAP round trip (in memory or through a .star      *)
(*           file) must return the same particles in the same order with   *)
(*           the shared fields (numbers, score, class, position, shifts,   *)
(*           orientation) of the previous logged state.                    *)
(*   "relion" (C03): a RELION 3.0/3.1/4.0 export -> import (in memory or   *)
(*           through a STAR file) must return every particle, in order, to *)
(*           its complete position (as x, zero shift) and orientation,     *)
(*           keep tomogram number and class, and carry the subtomogram     *)
(*           number in geom3.                                              *)
(*   "spatial" (C09): the four spatial filters (trim, oob, mask_clean,      *)
(*           points_clean) must keep exactly the rows SpatialFilter.tla     *)
(*           keeps when its filter is applied to the previous logged state, *)
(*           with SpatialFilter's coordinates, and every surviving row      *)
(*           keeps all its other fields.  (The open finding of C09 - a      *)
(*           particle outside through a lower face only is kept - is kept   *)
(*           out of the way: the harness does not make an oob call on a     *)
(*           state that contains such a particle, and a step that starts    *)
(*           from one is not judged here.)                                  *)
(*   "sym"  (C10): split_in_asymmetric_subunits for the orders that are     *)
(*           exact on the cube group (C1, C2, C4) must yield SymExpand's    *)
(*           subunits of the previous logged state: n per parent, index     *)
(*           1..n, parent recorded, orientation R.Rz(360 j/n), complete     *)
(*           position centre + R_out.s, integral x with |shift| <= 1/2,     *)
(*           unique numbers, inherited fields (either start of the index).  *)
(*   The scope "set" also judges the read-only step `query`                *)
(*           (split_by_feature / get_unique_values on the current state):   *)
(*           the parts are a partition of the CURRENT state, the values its *)
(*           distinct values, and the state is unchanged.                   *)
(* so that a defect of one property never raises the other's alarm.  A step *)
(* of another scope only re-synchronises the state (st' = logged state).    *)
(*                                                                         *)
(* Harness steps that are named but not judged: the re-tagging after a    *)
(* format round trip and after a symmetry expansion (e.next), and - before *)
(* every spatial filter - setting the live position / shift columns to the *)
(* exact lattice values of the logged state (the projection accepts 1e-9,  *)
(* the filters compare with exact faces, radii and voxel edges).           *)
(*                                                                         *)
(* A logged row is [sid, tomo, obj, cls, score, tag, x, s, r] with x, s on *)
(* the 1/8-voxel lattice and r a cube-group code.                          *)
(***************************************************************************)
EXTENDS Integers, Sequences, FiniteSets, TLC, Json, IOUtils

CONSTANT Scope

Traces == ndJsonDeserialize(IOEnv.TRACE_FILE)

VARIABLES tid, l, st, saved, ok, clause, judged
vars == <<tid, l, st, saved, ok, clause, judged>>

DimFun == (1 :> 48) @@ (2 :> 64) @@ (3 :> 40)

P == INSTANCE Pose WITH InitPoses <- {}, Shifts <- {}, Factors <- {}, DimZ <- DimFun, Rots <- {},
                        MaxDepth <- 0, EmitMode <- "none", ps <- <<>>, op <- <<>>, d <- 0, hist <- <<>>
S == INSTANCE MotlSetOps
SF == INSTANCE SpatialFilter WITH Cases <- {}, cs <- <<>>, nc <- 0, prev <- <<>>, res <- <<>>
SE == INSTANCE SymExpand WITH Cases <- {}, cs <- <<>>, done <- FALSE, outs <- <<>>

Events == Traces[tid].ev

ToPose(r) == [x |-> r.x, s |-> r.s, R |-> P!FromCode(r.r), t |-> r.tomo]
ToRow(r) == [sid |-> r.sid, tomo |-> r.tomo, obj |-> r.obj, score |-> r.score, cls |-> r.cls, tag |-> r.tag]
SetTable(T) == [i \in DOMAIN T |-> ToRow(T[i])]

SameIdentity(a, b) == ToRow(a) = ToRow(b)
SamePose(a, b) == a.x = b.x /\ a.s = b.s /\ a.r = b.r

\* ---- pose steps ------------------------------------------------------------------------------
PoseImage(e, p) == CASE e.name = "update" -> P!UpdateP(p)
                     [] e.name = "scale"  -> P!ScaleP(p, <<e.num, e.den>>)
                     [] e.name = "shift"  -> P!ShiftP(p, e.v)
                     [] e.name = "rotate" -> P!RotateP(p, P!FromCode(e.q))
                     [] e.name = "flip"   -> P!FlipP(p, e.kind)

PoseNames == {"update", "scale", "shift", "rotate", "flip"}

PoseStepOK(e) ==
    /\ Len(e.post) = Len(st)
    /\ \A k \in DOMAIN st :
          LET want == PoseImage(e, ToPose(st[k]))
              got  == ToPose(e.post[k])
          IN  /\ SameIdentity(st[k], e.post[k])
              /\ P!Complete(got) = P!Complete(want)
              /\ got.R = want.R
              /\ e.name = "update" => \A i \in 1..3 : got.x[i] % 8 = 0 /\ 2 * P!Abs(got.s[i]) <= 8

\* ---- set steps -------------------------------------------------------------------------------
SetNames == {"subset", "remove", "intersect", "dropdup", "merge_renumber", "renumber_particles",
             "renumber_objects", "em_roundtrip"}

\* every surviving row keeps its pose and its other fields: found by tag in the pool of input rows
PoolRows(e) == IF e.name \in {"intersect", "merge_renumber"} THEN S!Range(st) \cup S!Range(saved) ELSE S!Range(st)
Untouched(e) == \A i \in DOMAIN e.post :
                   \E q \in PoolRows(e) : q.tag = e.post[i].tag /\ SamePose(q, e.post[i])
                                          /\ q.tomo = e.post[i].tomo /\ q.cls = e.post[i].cls /\ q.score = e.post[i].score

SetClause(e) ==
    LET A == SetTable(st)
        B == SetTable(saved)
        R == SetTable(e.post)
    IN  CASE e.name = "subset"  -> S!SubsetExact(A, e.f, e.vals, R)
          [] e.name = "remove"  -> S!RemoveComplementsSubset(A, e.f, e.vals, R)
          [] e.name = "intersect" -> S!IntersectionExact(A, B, R)
          [] e.name = "dropdup" -> S!DropDupOneBest(A, e.f, e.asc, R)
          [] e.name = "merge_renumber" -> S!MergeNumbers(<<A, B>>, R)
          [] e.name = "renumber_particles" -> S!ParticlesRenumbered(A, R)
          [] e.name = "renumber_objects" -> S!ObjectsSequential(A, e.start, R)
          [] e.name = "em_roundtrip" -> R = A          \* write_out + load: same particles, same order, same fields

\* ---- format round trips ---------------------------------------------------------------------
\* (the harness re-installs the row tags by position afterwards, so a permuted result shows as changed fields)
ConvNames == {"sg_roundtrip", "relion_roundtrip"}

SgStepOK(e) ==
    /\ Len(e.post) = Len(st)
    /\ \A k \in DOMAIN st : /\ SameIdentity(st[k], e.post[k])
                            /\ SamePose(st[k], e.post[k])

RelionStepOK(e) ==
    /\ Len(e.post) = Len(st)
    /\ Len(e.geom3) = Len(st)
    /\ \A k \in DOMAIN st :
          LET was == ToPose(st[k])
              got == ToPose(e.post[k])
          IN  /\ e.post[k].tomo = st[k].tomo
              /\ e.post[k].cls = st[k].cls
              /\ e.geom3[k] = st[k].sid
              /\ got.x = P!Complete(was)
              /\ got.s = <<0, 0, 0>>
              /\ got.R = was.R

\* ---- spatial filters (C09) -------------------------------------------------------------------
SpatialNames == {"trim", "oob", "mask_clean", "points_clean"}
SeqRange(q) == { q[i] : i \in DOMAIN q }
TagsOK(T) == /\ \A k \in DOMAIN T : T[k].tag >= 0
             /\ Cardinality({ T[k].tag : k \in DOMAIN T }) = Len(T)

\* the logged row as a SpatialFilter particle (identified by its tag)
Part(r) == [id |-> r.tag, t |-> r.tomo, x |-> r.x, s |-> r.s]
DimsOf(d) == [t \in { d[k][1] : k \in DOMAIN d } |-> LET k == CHOOSE k \in DOMAIN d : d[k][1] = t IN <<d[k][2], d[k][3], d[k][4]>>]
Box3(lo, hi) == { <<i, j, k>> : i \in lo[1]..hi[1], j \in lo[2]..hi[2], k \in lo[3]..hi[3] }
\* a logged mask: <<tomogram, shape, lo, hi, inv>>: zero voxels = the box lo..hi, or (inv = 1) everything but the box
MaskOf(m) == [shape |-> m[2],
              zero |-> IF m[5] = 0 THEN Box3(m[3], m[4])
                       ELSE Box3(<<0, 0, 0>>, <<m[2][1] - 1, m[2][2] - 1, m[2][3] - 1>>) \ Box3(m[3], m[4])]
SpatialOp(e) ==
    CASE e.name = "oob" -> [name |-> "oob", kind |-> e.kind, box |-> e.box]
      [] e.name = "trim" -> [name |-> "trim", start |-> e.start, end |-> e.end]
      [] e.name = "points_clean" -> [name |-> "points", r |-> e.r,
                                     pts |-> { [t |-> q[1], pos |-> <<q[2], q[3], q[4]>>] : q \in SeqRange(e.pts) }]
      [] e.name = "mask_clean" -> [name |-> "mask", form |-> e.form, tl |-> SeqRange(e.tl),
                                   masks |-> [t \in { m[1] : m \in SeqRange(e.masks) } |->
                                                 MaskOf(CHOOSE m \in SeqRange(e.masks) : m[1] = t)]]
SpatialCase(e) == [id |-> 0, ps |-> [k \in DOMAIN st |-> Part(st[k])],
                   dims |-> IF e.name = "oob" THEN DimsOf(e.dims) ELSE <<>>, op |-> SpatialOp(e)]

\* not judged: ambiguous under SpatialFilter (mask index conventions), tags unusable, or - oob - a particle that is
\* outside through a lower face only (the open finding of C09, see the module comment)
SpatialJudged(e) ==
    /\ TagsOK(st)
    /\ ~SF!Ambiguous(SpatialCase(e))
    /\ e.name = "oob" => \A k \in DOMAIN st : SF!StatusOOB(SpatialCase(e), Part(st[k])) # "lower"

\* exactly SpatialFilter's survivors, with SpatialFilter's coordinates (C09_ExactInsideSet)
SpatialSetOK(e) ==
    LET want == SF!Result(SpatialCase(e)).ps
    IN  /\ Len(e.post) = Len(want)
        /\ { e.post[i].tag : i \in DOMAIN e.post } = { want[k].id : k \in DOMAIN want }
\* every surviving row is the row of the previous state with that tag: all fields kept, x as SpatialFilter says
SpatialUntouched(e) ==
    LET want == SF!Result(SpatialCase(e)).ps
    IN  \A i \in DOMAIN e.post :
           \E k \in DOMAIN st : \E w \in DOMAIN want :
              /\ st[k].tag = e.post[i].tag /\ want[w].id = e.post[i].tag
              /\ SameIdentity(st[k], e.post[i])
              /\ e.post[i].r = st[k].r /\ e.post[i].s = st[k].s
              /\ e.post[i].x = want[w].x

\* ---- cyclic symmetry expansion (C10) ---------------------------------------------------------
Parents == [k \in DOMAIN st |-> [sid |-> st[k].sid, x |-> st[k].x, s |-> st[k].s, R |-> P!FromCode(st[k].r), tag |-> st[k].tag]]
SymCase(e, j0) == [ps |-> Parents, n |-> e.n, off |-> e.off, j0 |-> j0]
SymJudged(e) == /\ e.n \in {1, 2, 4}
                /\ TagsOK(st)
                /\ Cardinality({ st[k].sid : k \in DOMAIN st }) = Len(st)        \* parents identified by their number
RowOfSid(sid) == CHOOSE r \in SeqRange(st) : r.sid = sid
\* e.post[i] carries, besides the row fields, k (geom2) and parent (geom5) as the call returned them
SymCountOK(e) == /\ Len(e.post) = e.n * Len(st)
                 /\ \A i \in DOMAIN e.post : e.post[i].parent \in { st[k].sid : k \in DOMAIN st }
                 /\ \A k \in DOMAIN st : { e.post[i].k : i \in { i \in DOMAIN e.post : e.post[i].parent = st[k].sid } } = 1..e.n
                 /\ \A k \in DOMAIN st : Cardinality({ i \in DOMAIN e.post : e.post[i].parent = st[k].sid }) = e.n
SymIdsOK(e) == Cardinality({ e.post[i].sid : i \in DOMAIN e.post }) = Len(e.post)
SymInheritOK(e) == \A i \in DOMAIN e.post :
                      LET p == RowOfSid(e.post[i].parent)
                      IN  /\ e.post[i].tag = p.tag /\ e.post[i].tomo = p.tomo /\ e.post[i].obj = p.obj
                          /\ e.post[i].cls = p.cls /\ e.post[i].score = p.score
SymGeometryOK(e, j0) ==
    \A i \in DOMAIN e.post :
       LET o == [parent |-> e.post[i].parent, k |-> e.post[i].k, j |-> (j0 + e.post[i].k - 1) % e.n, sid |-> 0, tag |-> 0]
           c == SymCase(e, j0)
           pos == SE!PosX(c, o)
       IN  /\ e.post[i].r = P!Code(SE!OriX(c, o))
           /\ \A a \in 1..3 : /\ e.post[i].x[a] + e.post[i].s[a] = pos[a]
                               /\ e.post[i].x[a] % 8 = 0 /\ 2 * P!Abs(e.post[i].s[a]) <= 8
SymFailing(e) == IF ~SymCountOK(e) THEN "C10_Count"
                 ELSE IF ~SymIdsOK(e) THEN "C10_UniqueIds"
                 ELSE IF ~SymInheritOK(e) THEN "C10_Inherit"
                 ELSE IF ~(SymGeometryOK(e, 0) \/ SymGeometryOK(e, 1)) THEN "C10_ExactOrbit"
                 ELSE "none"

\* ---- read-only query on the current state (C08) ------------------------------------------------
QueryOK(e) ==
    LET A == SetTable(st) IN
    /\ e.post = st                                                   \* nothing changed
    /\ e.which = "split" => S!SplitPartitions(A, e.f, [k \in DOMAIN e.parts |-> SetTable(e.parts[k])])
    /\ e.which = "unique" => e.uniq = S!DistinctSeq(A, e.f)

ClauseName(e) == CASE e.name = "sg_roundtrip" -> "C04_SharedFieldsSurvive" [] e.name = "relion_roundtrip" -> "C03_RoundTripPose" [] e.name = "subset" -> "C08_SubsetExact" [] e.name = "remove" -> "C08_RemoveComplementsSubset"
                   [] e.name = "intersect" -> "C08_IntersectionExact" [] e.name = "dropdup" -> "C08_DropDupOneBest"
                   [] e.name = "merge_renumber" -> "C08_MergeNumbers" [] e.name = "renumber_particles" -> "C08_ParticlesRenumbered"
                   [] e.name = "renumber_objects" -> "C08_ObjectsSequential" [] e.name = "em_roundtrip" -> "C01_RoundTrip"
                   [] e.name = "update" -> "C05_UpdateKeepsComplete" [] e.name = "scale" -> "C05_ScaleMultiplies"
                   [] e.name = "shift" -> "C05_ShiftMovesByOwnOrientation" [] e.name = "rotate" -> "C05_RotateComposes"
                   [] e.name = "flip" -> "C05_FlipMirrors"
                   [] e.name \in SpatialNames -> "C09_ExactInsideSet" [] e.name = "split" -> "C10_Count"
                   [] e.name = "query" -> "C08_QueriesCurrent"

\* a row the projection could not map onto the exact domain carries the code <<0,0,0,0,0,0>>; a step that starts
\* from such a state cannot be judged (it only re-synchronises), a step that produces one is rejected
Exact(T) == \A k \in DOMAIN T : T[k].r[1] # 0

Failing(e) ==
    IF ~Exact(st) THEN "none"
    ELSE IF ~Exact(e.post) /\ (\/ (Scope = "pose" /\ e.name \in PoseNames) \/ (Scope = "set" /\ e.name \in SetNames)
                              \/ (Scope = "sg" /\ e.name = "sg_roundtrip") \/ (Scope = "relion" /\ e.name = "relion_roundtrip")
                              \/ (Scope = "spatial" /\ e.name \in SpatialNames) \/ (Scope = "sym" /\ e.name = "split" /\ SymJudged(e))
                              \/ (Scope = "set" /\ e.name = "query"))
    THEN ClauseName(e)
    ELSE IF Scope = "sg" /\ e.name = "sg_roundtrip"
    THEN (IF SgStepOK(e) THEN "none" ELSE ClauseName(e))
    ELSE IF Scope = "relion" /\ e.name = "relion_roundtrip"
    THEN (IF RelionStepOK(e) THEN "none" ELSE ClauseName(e))
    ELSE IF Scope = "pose" /\ e.name \in PoseNames
    THEN (IF PoseStepOK(e) THEN "none" ELSE ClauseName(e))
    ELSE IF Scope = "spatial" /\ e.name \in SpatialNames
    THEN (IF ~SpatialJudged(e) THEN "none"
          ELSE IF ~e.schema_ok THEN "C09_SurvivorsUntouched"
          ELSE IF ~SpatialSetOK(e) THEN "C09_ExactInsideSet"
          ELSE IF ~SpatialUntouched(e) THEN "C09_SurvivorsUntouched"
          ELSE "none")
    ELSE IF Scope = "sym" /\ e.name = "split"
    THEN (IF ~SymJudged(e) THEN "none" ELSE SymFailing(e))
    ELSE IF Scope = "set" /\ e.name = "query"
    THEN (IF ~e.schema_ok THEN "C08_Schema"
          ELSE IF ~QueryOK(e) THEN (IF e.post # st THEN "C08_TagsIntact" ELSE IF e.which = "split" THEN "C08_SplitPartitions" ELSE "C08_QueriesCurrent")
          ELSE "none")
    ELSE IF Scope = "set" /\ e.name \in SetNames
    THEN (IF ~e.schema_ok THEN "C08_Schema"
          ELSE IF ~Untouched(e) THEN "C08_TagsIntact"
          ELSE IF ~SetClause(e) THEN ClauseName(e)
          ELSE "none")
    ELSE "none"

\* a step whose clauses were really evaluated in this scope, from an exact state to an exact state (the names are
\* reported with the verdict so that the driver can show that no kind of step is vacuous)
Judged(e) ==
    /\ Exact(st) /\ Exact(e.post)
    /\ \/ Scope = "pose" /\ e.name \in PoseNames
       \/ Scope = "set" /\ e.name \in SetNames \cup {"query"}
       \/ Scope = "sg" /\ e.name = "sg_roundtrip"
       \/ Scope = "relion" /\ e.name = "relion_roundtrip"
       \/ Scope = "spatial" /\ e.name \in SpatialNames /\ SpatialJudged(e)
       \/ Scope = "sym" /\ e.name = "split" /\ SymJudged(e)

TraceInit == /\ tid \in 1..Len(Traces)
             /\ l = 1
             /\ st = Traces[tid].init
             /\ saved = Traces[tid].b
             /\ ok = TRUE
             /\ clause = "none"
             /\ judged = <<>>

TraceNext == /\ ok
             /\ l <= Len(Events)
             /\ LET e == Events[l]
                    c == Failing(e)
                IN  /\ judged' = IF Judged(e) THEN Append(judged, e.name) ELSE judged
                    /\ ok' = (c = "none")
                    /\ clause' = c
                    \* after a split the harness re-tags the rows (the row count changed): e.next is that state
                    /\ st' = IF e.name = "split" THEN e.next ELSE e.post
                    /\ UNCHANGED saved
             /\ l' = l + 1
             /\ UNCHANGED tid

TraceSpec == TraceInit /\ [][TraceNext]_vars

Report == \/ (ok /\ l <= Len(Events))
          \/ PrintT(<<"VERDICT", ToJson([tid |-> tid, ok |-> ok, clause |-> clause, step |-> l - 1, judged |-> judged])>>)
=============================================================================

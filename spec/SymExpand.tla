----------------------------- MODULE SymExpand -----------------------------
(***************************************************************************)
(* C10 - cyclic symmetry expansion (split_in_asymmetric_subunits, C_n).    *)
(*                                                                         *)
(* A parent is [sid, x, s (1/8-voxel lattice, complete position x + s),    *)
(* R (orientation), tag (token for the fields a subunit inherits)].  The   *)
(* expansion of a list by an n-fold cyclic symmetry with subunit offset    *)
(* off yields, per parent, the subunits k = 1..n.                          *)
(*                                                                         *)
(* Two readings of the orientation algebra share the structural part:      *)
(*  - symbolic, any n: the orientation of a subunit is <R, j> with j in    *)
(*    Z_n, standing for R . Rz(360 j / n);                                 *)
(*  - exact, n in {1, 2, 4}: Rz(360/n) is the cube-group element           *)
(*    Rz1^(4/n), orientations are elements of Cube, positions are lattice  *)
(*    vectors, and the coordinate update rounds the complete position.     *)
(*                                                                         *)
(* The property says "the k-th has R.Rz(360k/n)" without fixing whether k  *)
(* counts from 0 or from 1 (both describe the same orbit); a result is     *)
(* accepted under either start (field j0 below).                           *)
(***************************************************************************)
EXTENDS Integers, Sequences, FiniteSets, TLC, Json, Cube

CONSTANTS Cases          \* set of cases [ps : Seq(parent), n, off, j0 \in {0, 1}]

VARIABLES cs, done, outs
vars == <<cs, done, outs>>

U == 8
Abs(a) == IF a < 0 THEN -a ELSE a
RoundHalfAway(c) == LET q == (2 * Abs(c) + U) \div (2 * U) IN IF c < 0 THEN -(q * U) ELSE q * U
Cpl(p) == [i \in 1..3 |-> p.x[i] + p.s[i]]

\* structural part, any n: parent i yields subunits k = 1..n with in-plane index j = (j0 + k - 1) mod n
Expand(c) == [m \in 1..(Len(c.ps) * c.n) |->
                 LET i == ((m - 1) \div c.n) + 1
                     k == ((m - 1) % c.n) + 1
                 IN  [parent |-> c.ps[i].sid, k |-> k, j |-> (c.j0 + k - 1) % c.n, sid |-> m, tag |-> c.ps[i].tag]]

\* exact part, n in {1, 2, 4}
Exact(n) == n \in {1, 2, 4}
Gen(n) == Pow(Rz1, 4 \div n)                           \* Rz(360 / n)
Parent(c, sid) == CHOOSE p \in { c.ps[i] : i \in DOMAIN c.ps } : p.sid = sid
\* orientation of a subunit: R . Gen(n)^j = R . Rz1^(j * 4 / n)  (Pow reduces its exponent mod 4)
OriX(c, o) == Mul(Parent(c, o.parent).R, Pow(Rz1, o.j * (4 \div c.n)))
PosX(c, o) == LET ctr == Cpl(Parent(c, o.parent))
                  v == Apply(OriX(c, o), c.off)
              IN  [i \in 1..3 |-> ctr[i] + v[i]]

Init == cs \in Cases /\ done = FALSE /\ outs = <<>>
Apply1 == ~done /\ done' = TRUE /\ outs' = Expand(cs) /\ UNCHANGED cs
Spec == Init /\ [][Apply1]_vars

-----------------------------------------------------------------------------
\* Clauses (on the result of every case)

Of(sid) == { m \in DOMAIN outs : outs[m].parent = sid }
Sids == { cs.ps[i].sid : i \in DOMAIN cs.ps }

C10_Count == done => \A sid \in Sids : Cardinality(Of(sid)) = cs.n

C10_Indices == done => /\ \A sid \in Sids : { outs[m].k : m \in Of(sid) } = 1..cs.n
                       /\ \A m \in DOMAIN outs : outs[m].parent \in Sids

C10_UniqueIds == done => Cardinality({ outs[m].sid : m \in DOMAIN outs }) = Len(outs)

C10_Inherit == done => \A m \in DOMAIN outs : outs[m].tag = Parent(cs, outs[m].parent).tag

\* Z_n orbit: consecutive subunits differ by one generator step, and the in-plane indices exhaust Z_n
C10_Orbit == done => \A sid \in Sids :
                 /\ \A m1, m2 \in Of(sid) : outs[m2].k = outs[m1].k + 1 => outs[m2].j = (outs[m1].j + 1) % cs.n
                 /\ { outs[m].j : m \in Of(sid) } = 0..(cs.n - 1)

\* exact scope: the same orbit in the cube group, subunits related by rotations about the parent's own z-axis,
\* all of them mapping back to the parent's centre
C10_ExactOrbit == done /\ Exact(cs.n) => \A sid \in Sids :
                 /\ \A m1, m2 \in Of(sid) : outs[m2].k = outs[m1].k + 1 => OriX(cs, outs[m2]) = Mul(OriX(cs, outs[m1]), Gen(cs.n))
                 /\ \A m \in Of(sid) : /\ ZAxis(OriX(cs, outs[m])) = ZAxis(Parent(cs, sid).R)
                                       /\ Mul(Inv(Parent(cs, sid).R), OriX(cs, outs[m])) \in { Pow(Rz1, q) : q \in 0..3 }
                 /\ Cardinality({ OriX(cs, outs[m]) : m \in Of(sid) }) = cs.n

C10_MapsBack == done /\ Exact(cs.n) => \A m \in DOMAIN outs :
                 LET back == Apply(OriX(cs, outs[m]), cs.off)
                 IN  [i \in 1..3 |-> PosX(cs, outs[m])[i] - back[i]] = Cpl(Parent(cs, outs[m].parent))

\* the coordinate update: integral extraction position, |shift| <= 1/2, complete position unchanged
C10_Integral == done /\ Exact(cs.n) => \A m \in DOMAIN outs : \A i \in 1..3 :
                 LET c == PosX(cs, outs[m])[i]
                     x == RoundHalfAway(c)
                 IN  x % U = 0 /\ 2 * Abs(c - x) <= U

\* frame condition: the expansion yields a new list; the parents, n and the offset (the case) stay as they are
C10_ArgumentsUntouched == [][cs' = cs]_vars

TypeOK == done \in BOOLEAN /\ (~done => outs = <<>>)

-----------------------------------------------------------------------------
\* emission (exact scope): every expected subunit under both index starts
Alt(c, o, start) == [o EXCEPT !.j = (start + o.k - 1) % c.n]
OutJ(c, o) == [parent |-> o.parent, k |-> o.k, tag |-> o.tag,
               ra |-> Code(OriX(c, Alt(c, o, 0))), pa |-> PosX(c, Alt(c, o, 0)),
               rb |-> Code(OriX(c, Alt(c, o, 1))), pb |-> PosX(c, Alt(c, o, 1))]
CaseJ(c) == [n |-> c.n, off |-> c.off,
             ps |-> [i \in DOMAIN c.ps |-> [sid |-> c.ps[i].sid, x |-> c.ps[i].x, s |-> c.ps[i].s, r |-> Code(c.ps[i].R), tag |-> c.ps[i].tag]]]
Emit == \/ ~done \/ ~Exact(cs.n)
        \/ PrintT(<<"EXP", ToJson([case |-> CaseJ(cs), outs |-> [m \in DOMAIN outs |-> OutJ(cs, outs[m])]])>>)
=============================================================================

----------------------------- MODULE MapSysTrace -----------------------------
(***************************************************************************)
(* Composition of the map-side specifications on ONE pool of live maps and *)
(* files: mixed histories (file IO and conversions of MapIO.tla, windowing *)
(* of MapGeom.tla, mask algebra of MaskShapes.tla, thresholding, read-only *)
(* observers, the caller editing one of its own arrays) executed on live   *)
(* numpy arrays and a scratch directory, validated step by step.  Classical*)
(* trace validation with the full abstract state logged after every call:  *)
(*     TraceNext == IsEvent(e) /\ <spec relation of e between st and       *)
(*                  e.post> /\ st' = e.post                                *)
(*                                                                         *)
(* State: slots (named in-memory maps) and files.                          *)
(*   map  = [dims |-> <<nx,ny,nz>>, ty |-> element type, vox |-> v[i][j][k]*)
(*           small integers, by |-> scope of the step that produced it,    *)
(*           gen |-> number of that step]                                  *)
(*   file = [fmt, dims, mode, data] - the document of MapIO.tla (x fastest)*)
(* Voxels are small integers, so every element type holds them exactly;    *)
(* mask slots hold 0 / 1.  What the projection cannot map exactly is a     *)
(* sentinel (ty / fmt = "sentinel"): a step that starts from a state with  *)
(* a sentinel cannot be judged (it only re-synchronises); a judged step    *)
(* that produces one is rejected.  MeanCode stands for "the mean of the    *)
(* volume" where that mean is not an integer; the harness replaces it in a *)
(* named, unjudged re-synchronisation step (resync_mean).  FaceCode stands  *)
(* for a voxel of a rotated map that interpolation does not decide (the    *)
(* faces of the box); the harness zeroes those in resync_faces.            *)
(*                                                                         *)
(* The constant Scope selects whose clauses are enforced:                  *)
(*   "io"   (C11): write / read / em2mrc / mrc2em / invert_contrast        *)
(*   "geom" (C14): crop / pad / extract_subvolume / flip / right-angle     *)
(*           rotate (interior voxels, MapGeom's RotPairs)                  *)
(*   "mask" (C13): union / intersection / subtraction / difference         *)
(*   "all"  every relation (calibration of this module only)               *)
(* Every other step only re-synchronises, so a defect of one property      *)
(* never raises another property's alarm.  A judged step also carries the  *)
(* frame condition: no other slot and no other file changed.  When the     *)
(* caller edits one voxel of one of its own arrays ("poke") no other slot  *)
(* may change; a slot that does is blamed on the scope whose step produced *)
(* it (a result that aliases an argument or library state).                *)
(***************************************************************************)
EXTENDS Integers, Sequences, FiniteSets, TLC, Json, IOUtils

CONSTANT Scope

Traces == ndJsonDeserialize(IOEnv.TRACE_FILE)

VARIABLES tid, l, st, ok, clause
vars == <<tid, l, st, ok, clause>>

\* the per-step relations come from the modules of the properties
IO == INSTANCE MapIO WITH InitArrays <- {}, Bases <- {}, Acts <- {}, TrSet <- {}, DtSet <- {}, SpSet <- {}, AfSet <- {},
                          OwSet <- {}, MaxDepth <- 0, EmitMode <- "none", mem <- 0, disk <- 0, res <- "ok", op <- 0, d <- 0,
                          hist <- <<>>
G == INSTANCE MapGeom WITH RotCases <- {}, PlaceCases <- {}, PlaceListCases <- {}, WindowCases <- {}, SymCases <- {},
                           EmitMode <- "none", kind <- "none", inp <- 0, out <- 0, d <- 0
MS == INSTANCE MaskShapes

Events == Traces[tid].ev

MeanCode == 777777
FaceCode == 888888
Abs(n) == IF n < 0 THEN 0 - n ELSE n

-----------------------------------------------------------------------------
\* logged state <-> the structures of MapIO.tla
FromInt(v) == [t |-> Abs(v), w |-> "i", s |-> IF v < 0 THEN 0 - 1 ELSE 1]
ToInt(tok) == tok.s * tok.t

ToArr(m) == LET F(i, j, k) == FromInt(m.vox[i][j][k]) IN IO!MkArr(<<m.dims[1], m.dims[2], m.dims[3]>>, m.ty, F)
ToDoc(f) == [fmt |-> f.fmt, dims |-> <<f.dims[1], f.dims[2], f.dims[3]>>, mode |-> f.mode,
             data |-> [q \in 1..Len(f.data) |-> FromInt(f.data[q])]]

\* a logged map has the shape, element type and voxels of the MapIO array A
SameArr(m, A) == /\ <<m.dims[1], m.dims[2], m.dims[3]>> = A.shape
                 /\ m.ty = A.dtype
                 /\ \A i \in 1..A.shape[1] : \A j \in 1..A.shape[2] : \A k \in 1..A.shape[3] :
                        m.vox[i][j][k] = ToInt(A.vox[i][j][k])
\* a logged file is the MapIO document D
SameDoc(f, D) == /\ f.fmt = D.fmt
                 /\ <<f.dims[1], f.dims[2], f.dims[3]>> = D.dims
                 /\ f.mode = D.mode
                 /\ Len(f.data) = Len(D.data)
                 /\ \A q \in 1..Len(D.data) : f.data[q] = ToInt(D.data[q])

Slots(s) == DOMAIN s.slots
Files(s) == DOMAIN s.files
HasFile(s, f) == f \in Files(s)

SameMap(a, b) == a.dims = b.dims /\ a.ty = b.ty /\ a.vox = b.vox          \* (provenance apart)

\* frame: nothing but the named slots / files differs between the states
OtherSlotsKept(e, except) == /\ Slots(e.post) = Slots(st)
                             /\ \A x \in Slots(st) \ except : SameMap(e.post.slots[x], st.slots[x])
OtherFilesKept(e, except) == /\ Files(e.post) \ except = Files(st) \ except
                             /\ \A g \in Files(st) \ except : e.post.files[g] = st.files[g]

ExactMap(m) == m.ty # "sentinel" /\ \A i \in DOMAIN m.vox : \A j \in DOMAIN m.vox[i] : \A k \in DOMAIN m.vox[i][j] :
                   m.vox[i][j][k] # MeanCode /\ m.vox[i][j][k] # FaceCode
Exact(s) == /\ \A x \in Slots(s) : ExactMap(s.slots[x])
            /\ \A g \in Files(s) : s.files[g].fmt # "sentinel"
\* a geometry step may hand out MeanCode voxels; nothing may be a sentinel
NoSentinel(s) == /\ \A x \in Slots(s) : s.slots[x].ty # "sentinel"
                 /\ \A g \in Files(s) : s.files[g].fmt # "sentinel"

-----------------------------------------------------------------------------
\* ---- io steps (C11): relations of MapIO.tla
FmtOfName(e) == IO!FmtOf(e.ext)

WriteOK(e) ==
    LET A == IO!CastArr(ToArr(st.slots[e.slot]), e.dt)
    IN  IF ~e.ow /\ HasFile(st, e.file)
        THEN e.refused /\ OtherFilesKept(e, {}) /\ OtherSlotsKept(e, {})
        ELSE /\ ~e.refused
             /\ HasFile(e.post, e.file)
             /\ SameDoc(e.post.files[e.file], IO!DocOf(A, e.tr, FmtOfName(e)))
WriteClause(e) == IF ~e.ow /\ HasFile(st, e.file) THEN "C11_NoClobber" ELSE "C11_DiskLayout"

ReadOK(e) == /\ SameArr(e.post.slots[e.slot], IO!CastArr(IO!ArrOf(ToDoc(st.files[e.file]), e.tr), e.dt))

\* conversions: e.file = <base>.<from>; the default target is the same base with the other extension
ConvTarget(e) == IF e.ob = "default" THEN e.base \o "." \o e.to ELSE e.ob \o "." \o e.to
ConvOK(e) ==
    LET A == IO!ArrOf(ToDoc(st.files[e.file]), TRUE)
        B == IF e.inv THEN IO!NegArr(A) ELSE A
    IN  IF ~e.ow /\ HasFile(st, ConvTarget(e))
        THEN e.refused /\ OtherFilesKept(e, {}) /\ OtherSlotsKept(e, {})
        ELSE /\ ~e.refused
             /\ HasFile(e.post, ConvTarget(e))
             /\ SameDoc(e.post.files[ConvTarget(e)], IO!DocOf(B, TRUE, IO!FmtOf(e.to)))
ConvClause(e) == IF ~e.ow /\ HasFile(st, ConvTarget(e)) THEN "C11_NoClobber"
                 ELSE IF ~HasFile(e.post, ConvTarget(e)) \/ ~OtherFilesKept(e, {ConvTarget(e)}) THEN "C11_DefaultNames"
                 ELSE IF e.inv THEN "C11_ConvertNegates" ELSE "C11_ConvertPreserves"

\* invert_contrast(file [, output]) -> slot
InvertOK(e) ==
    LET A == IO!NegArr(IO!ArrOf(ToDoc(st.files[e.file]), TRUE))
    IN  /\ SameArr(e.post.slots[e.slot], A)
        /\ e.out # "none" => /\ HasFile(e.post, e.out)
                             /\ SameDoc(e.post.files[e.out], IO!DocOf(A, TRUE, IO!FmtOf(e.ext)))

IoNames == {"write", "read", "em2mrc", "mrc2em", "invert"}
IoTargets(e) == CASE e.name = "write" -> {e.file}
                  [] e.name \in {"em2mrc", "mrc2em"} -> {ConvTarget(e)}
                  [] e.name = "invert" -> IF e.out = "none" THEN {} ELSE {e.out}
                  [] OTHER -> {}
IoDest(e) == IF e.name \in {"read", "invert"} THEN {e.slot} ELSE {}
IoFailing(e) ==
    IF ~Exact(e.post) THEN (IF e.name = "write" THEN WriteClause(e) ELSE IF e.name = "read" THEN "C11_ReadLayout"
                            ELSE IF e.name = "invert" THEN "C11_ConvertNegates" ELSE ConvClause(e))
    ELSE IF e.name = "write" /\ ~WriteOK(e) THEN WriteClause(e)
    ELSE IF e.name = "read" /\ ~ReadOK(e) THEN "C11_ReadLayout"
    ELSE IF e.name \in {"em2mrc", "mrc2em"} /\ ~ConvOK(e) THEN ConvClause(e)
    ELSE IF e.name = "invert" /\ ~InvertOK(e) THEN "C11_ConvertNegates"
    ELSE IF ~OtherFilesKept(e, IoTargets(e)) THEN (IF e.name \in {"em2mrc", "mrc2em"} THEN "C11_DefaultNames" ELSE "C11_FrameOnlyTargetChanges")
    ELSE IF ~OtherSlotsKept(e, IoDest(e)) THEN "C11_ArgumentsKept"
    ELSE "none"

-----------------------------------------------------------------------------
\* ---- geometry steps (C14): windows of MapGeom.tla (integral centres, even shapes), central padding, axis flips
Seq3(v) == <<v[1], v[2], v[3]>>
Cell(m, x) == m.vox[x[1] + 1][x[2] + 1][x[3] + 1]                        \* x is a 0-based index triple

RECURSIVE SumUpTo(_, _)
SumUpTo(F(_), n) == IF n = 0 THEN 0 ELSE F(n) + SumUpTo(F, n - 1)
NVox(m) == m.dims[1] * m.dims[2] * m.dims[3]
Total(m) == LET F(q) == m.vox[((q - 1) % m.dims[1]) + 1][(((q - 1) \div m.dims[1]) % m.dims[2]) + 1][((q - 1) \div (m.dims[1] * m.dims[2])) + 1]
            IN  SumUpTo(F, NVox(m))
\* the value "mean of the volume": the integer mean, or the token MeanCode when the mean is not an integer
MeanOf(m) == IF Total(m) % NVox(m) = 0 THEN Total(m) \div NVox(m) ELSE MeanCode

\* voxel w (0-based) of the window of the given shape around centre: MapGeom's WindowCell
WindowValue(m, centre, shape, w) ==
    LET c == G!WindowCell(Seq3(m.dims), Seq3(centre), Seq3(shape), w)
    IN  IF c = G!MeanTok THEN MeanOf(m) ELSE Cell(m, c)

\* crop(map, new_size [, crop_coord]): the window, which lies inside the volume
CropOK(e) ==
    LET src == st.slots[e.src]
        r == e.post.slots[e.slot]
    IN  /\ Seq3(r.dims) = Seq3(e.shape)
        /\ \A w \in G!Box(Seq3(e.shape)) : Cell(r, w) = WindowValue(src, e.centre, e.shape, w)

\* extract_subvolume(map, centre, shape, enforce_shape): the window with the volume mean outside the volume;
\* enforce_shape: a volume-sized map that shows the volume inside the window and the mean elsewhere
ExtractOK(e) ==
    LET src == st.slots[e.src]
        r == e.post.slots[e.slot]
        start == G!WStart(Seq3(e.centre), Seq3(e.shape))
    IN  IF e.enforce
        THEN /\ Seq3(r.dims) = Seq3(src.dims)
             /\ \A x \in G!Box(Seq3(src.dims)) :
                    Cell(r, x) = IF \A a \in 1..3 : x[a] >= start[a] /\ x[a] < start[a] + e.shape[a] THEN Cell(src, x) ELSE MeanOf(src)
        ELSE /\ Seq3(r.dims) = Seq3(e.shape)
             /\ \A w \in G!Box(Seq3(e.shape)) : Cell(r, w) = WindowValue(src, e.centre, e.shape, w)

\* pad(map, new_size, fill_value): the volume in the centre of the larger box (equal margins: even differences only),
\* the fill value - or the volume mean - around it.  (The element type of a geometry result is logged and carried on,
\* not judged: the property speaks about voxels.)
PadOK(e) ==
    LET src == st.slots[e.src]
        r == e.post.slots[e.slot]
        off == [a \in 1..3 |-> (e.shape[a] - src.dims[a]) \div 2]
        fill == IF e.fillk = "mean" THEN MeanOf(src) ELSE e.fill
    IN  /\ Seq3(r.dims) = Seq3(e.shape)
        /\ \A x \in G!Box(Seq3(e.shape)) :
               Cell(r, x) = IF \A a \in 1..3 : x[a] >= off[a] /\ x[a] < off[a] + src.dims[a]
                            THEN Cell(src, [a \in 1..3 |-> x[a] - off[a]]) ELSE fill

\* flip(map, axes): the index along every named axis reversed
FlipOK(e) ==
    LET src == st.slots[e.src]
        r == e.post.slots[e.slot]
        ax == {e.axes[i] : i \in DOMAIN e.axes}
        M(x) == [a \in 1..3 |-> IF (a = 1 /\ "x" \in ax) \/ (a = 2 /\ "y" \in ax) \/ (a = 3 /\ "z" \in ax)
                                THEN src.dims[a] - 1 - x[a] ELSE x[a]]
    IN  /\ Seq3(r.dims) = Seq3(src.dims)
        /\ \A x \in G!Box(Seq3(src.dims)) : Cell(r, x) = Cell(src, M(x))

\* rotate(map, R) for a cube rotation R: every voxel at least one voxel away from the faces whose image is, too, takes
\* the value of its source (MapGeom: RotPairs = pairs <<destination, source>>); the other voxels are not decided
RotateOK(e) ==
    LET src == st.slots[e.src]
        r == e.post.slots[e.slot]
    IN  /\ Seq3(r.dims) = Seq3(src.dims)
        /\ \A pr \in G!RotPairs(Seq3(src.dims), G!FromCode(e.r)) : Cell(r, pr[1]) = Cell(src, pr[2])

GeomNames == {"crop", "extract", "pad", "flip", "rotate"}
GeomFailing(e) ==
    IF ~NoSentinel(e.post) THEN "C14_WindowExact"
    ELSE IF e.name = "crop" /\ ~CropOK(e) THEN "C14_WindowExact"
    ELSE IF e.name = "extract" /\ ~ExtractOK(e) THEN "C14_WindowExact"
    ELSE IF e.name = "pad" /\ ~PadOK(e) THEN "C14_WindowExact"
    ELSE IF e.name = "flip" /\ ~FlipOK(e) THEN "C14_FlipExact"
    ELSE IF e.name = "rotate" /\ ~RotateOK(e) THEN "C14_RotatePermutesInterior"
    ELSE IF ~OtherSlotsKept(e, {e.slot}) \/ ~OtherFilesKept(e, {}) THEN "C14_InputsUntouched"
    ELSE "none"

-----------------------------------------------------------------------------
\* ---- mask steps (C13): voxel-set algebra of MaskShapes.tla on binary masks given as arrays or files
Operand(r) == IF r.kind = "slot" THEN st.slots[r.name]
              ELSE LET A == IO!ArrOf(ToDoc(st.files[r.name]), TRUE)
                   IN  [dims |-> A.shape, ty |-> A.dtype,
                        vox |-> [i \in 1..A.shape[1] |-> [j \in 1..A.shape[2] |-> [k \in 1..A.shape[3] |-> ToInt(A.vox[i][j][k])]]]]
OnSet(m) == {x \in G!Box(Seq3(m.dims)) : Cell(m, x) = 1}
MaskResult(e) == LET ms == [i \in DOMAIN e.operands |-> OnSet(Operand(e.operands[i]))]
                 IN  CASE e.name = "union" -> MS!UnionM(ms)
                       [] e.name = "intersection" -> MS!InterM(ms)
                       [] e.name = "subtraction" -> MS!SubM(ms)
                       [] e.name = "difference" -> MS!DiffM(ms)
MaskNames == {"union", "intersection", "subtraction", "difference"}
MaskOK(e) ==
    LET first == Operand(e.operands[1])
        r == e.post.slots[e.slot]
        want == MaskResult(e)
    IN  /\ Seq3(r.dims) = Seq3(first.dims)
        /\ \A x \in G!Box(Seq3(first.dims)) : Cell(r, x) = IF x \in want THEN 1 ELSE 0
MaskFileOK(e) ==
    e.out # "none" =>
        /\ HasFile(e.post, e.out)
        /\ LET r == e.post.slots[e.slot]
           IN  SameDoc(e.post.files[e.out], IO!DocOf(IO!CastArr(ToArr(r), "f32"), TRUE, IO!FmtOf(e.ext)))
MaskFailing(e) ==
    IF ~Exact(e.post) THEN "C13_AlgebraIsVoxelwiseLogic"
    ELSE IF ~OtherSlotsKept(e, {e.slot}) THEN "C13_InputsUntouched"
    ELSE IF ~OtherFilesKept(e, IF e.out = "none" THEN {} ELSE {e.out}) THEN "C13_InputsUntouched"
    ELSE IF ~MaskOK(e) THEN "C13_AlgebraIsVoxelwiseLogic"
    ELSE IF ~MaskFileOK(e) THEN "C13_AlgebraIsVoxelwiseLogic"
    ELSE "none"

-----------------------------------------------------------------------------
\* ---- the caller edits one voxel of one of its own arrays: no other slot may change.  A slot that does was handed
\* out by an earlier call as an alias of an argument (or of library state): blamed on the scope that produced it.
\* two slots changed by one edit share memory; the alias was created by the call that produced the younger of the two
PokeBlamed(e) == {IF st.slots[y].gen > st.slots[e.slot].gen THEN st.slots[y].by ELSE st.slots[e.slot].by :
                     y \in {z \in Slots(st) \ {e.slot} : ~SameMap(e.post.slots[z], st.slots[z])}}
PokeFailing(e) ==
    IF Slots(e.post) # Slots(st) THEN "none"
    ELSE IF (Scope \in PokeBlamed(e)) \/ (Scope = "all" /\ PokeBlamed(e) # {})
    THEN (CASE Scope = "io" -> "C11_ResultsPersist" [] Scope = "geom" -> "C14_ResultsPersist" [] Scope = "mask" -> "C13_CallsAreIndependent"
            [] OTHER -> "ResultsPersist")
    ELSE "none"

-----------------------------------------------------------------------------
Judged(e) == \/ (Scope \in {"io", "all"} /\ e.name \in IoNames)
             \/ (Scope \in {"geom", "all"} /\ e.name \in GeomNames)
             \/ (Scope \in {"mask", "all"} /\ e.name \in MaskNames)

\* the name of the first clause the step breaks, or "none".  Steps of the other scopes, observers ("observe"),
\* thresholding ("binarize") and the harness steps ("resync_mean", "resync_faces") only re-synchronise.
Failing(e) ==
    IF ~Exact(st) THEN "none"
    ELSE IF e.name = "poke" THEN PokeFailing(e)
    ELSE IF ~Judged(e) THEN "none"
    \* the argument objects handed to the call (arrays, the mask list as a container) are what they were
    ELSE IF ~e.args_kept THEN (IF e.name \in IoNames THEN "C11_ArgumentsKept"
                               ELSE IF e.name \in GeomNames THEN "C14_InputsUntouched" ELSE "C13_InputsUntouched")
    ELSE IF e.name \in IoNames THEN IoFailing(e)
    ELSE IF e.name \in GeomNames THEN GeomFailing(e)
    ELSE MaskFailing(e)

TraceInit == /\ tid \in 1..Len(Traces)
             /\ l = 1
             /\ st = Traces[tid].init
             /\ ok = TRUE
             /\ clause = "none"

TraceNext == /\ ok
             /\ l <= Len(Events)
             /\ LET e == Events[l]
                    c == Failing(e)
                IN  /\ ok' = (c = "none")
                    /\ clause' = c
                    /\ st' = e.post
             /\ l' = l + 1
             /\ UNCHANGED tid

TraceSpec == TraceInit /\ [][TraceNext]_vars

Report == \/ (ok /\ l <= Len(Events))
          \/ PrintT(<<"VERDICT", ToJson([tid |-> tid, ok |-> ok, clause |-> clause, step |-> l - 1])>>)
=============================================================================

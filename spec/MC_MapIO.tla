------------------------------ MODULE MC_MapIO ------------------------------
(* Model-checking configurations of MapIO.tla.                                                          *)
(*   small : every shape of (1..3)^3 (quick: the 9 shapes of Shapes9), the six (element type, token class) *)
(*           combinations, one base name, every option combination, depth 2 (write -> read / convert)      *)
(*   deep  : two base names, two non-cubic shapes, default data_type, depth 4 (write, convert, refuse,     *)
(*           overwrite, read) - the overwrite / default-name clauses need several files                    *)
(*   tr    : like small on seeded shapes, every explored transition emitted for replay; tr3: one seeded     *)
(*           shape, default data_type, depth 3 (conversions onto existing targets)                         *)
(*   sim   : seeded shapes up to 6 per axis, two base names, random walks                                  *)
EXTENDS MapIO, IOUtils

Classes == {<<"f64", "d">>, <<"f32", "s">>, <<"i16", "i">>, <<"i8", "i">>, <<"f64", "i">>, <<"f32", "i">>}

\* unique token per voxel, numbered in C order of (i, j, k)
Fresh(shape, dtype, w) ==
    LET F(i, j, k) == Tok((i - 1) * shape[2] * shape[3] + (j - 1) * shape[3] + k, w) IN MkArr(shape, dtype, F)

ArraysOf(shapes, classes) == {Fresh(sh, c[1], c[2]) : sh \in shapes, c \in classes}

Shapes27 == (1..3) \X (1..3) \X (1..3)
Shapes9 == {<<1, 2, 3>>, <<1, 3, 2>>, <<2, 1, 3>>, <<2, 3, 1>>, <<3, 1, 2>>, <<3, 2, 1>>, <<2, 2, 3>>, <<3, 2, 2>>, <<1, 1, 2>>}
Small9 == ArraysOf(Shapes9, Classes)
Small27 == ArraysOf(Shapes27, Classes)
DeepInit == ArraysOf({<<2, 1, 3>>, <<1, 3, 2>>}, {<<"f64", "d">>, <<"i16", "i">>})

Params == JsonDeserialize(IOEnv.C11_PARAMS)
ToSet(s) == {s[i] : i \in DOMAIN s}
SeededShapes == {<<sh[1], sh[2], sh[3]>> : sh \in ToSet(Params.shapes)}
TrInit == ArraysOf(SeededShapes, Classes)
Tr3Init == ArraysOf({CHOOSE sh \in SeededShapes : TRUE}, {<<"f64", "d">>, <<"i8", "i">>})
SimInit == ArraysOf({<<sh[1], sh[2], sh[3]>> : sh \in ToSet(Params.sim_shapes)}, Classes)

\* (the base names are given in the cfg: stems drawn by the driver from a pool ending in e, m, r, c, digits, dots ...)
AllActs == {"write", "read", "em2mrc", "mrc2em", "invert"}
AllDt == {"none", "f64", "f32", "i16", "i8"}
NoDt == {"none"}
=============================================================================

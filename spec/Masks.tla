------------------------------- MODULE Masks -------------------------------
(***************************************************************************)
(* C13 - masks: analytic lattice shapes and voxel-wise set algebra.        *)
(*                                                                         *)
(* Every hard-edged shape of the property is the subset of the box cut out *)
(* by an integer inequality (MaskShapes.tla); TLC evaluates these sets     *)
(* exactly.  The machine is a pure function: Init picks a request, Build   *)
(* computes the mask.  The driver (mbt/drivers/c13.py) obtains the         *)
(* expected voxel set of every explored Build step as JSON and compares    *)
(* the array returned by cryomask voxel by voxel; MasksTrace.tla re-uses   *)
(* the membership predicates to re-decide every voxel of masks built in    *)
(* large boxes.                                                            *)
(***************************************************************************)
EXTENDS MaskShapes, Json

CONSTANTS
    Cases,          \* set of requests (records, see MaskShapes)
    EmitMode        \* "none" | "tr" (print every Build step as JSON)

VARIABLES case, out, phase
vars == <<case, out, phase>>

-----------------------------------------------------------------------------
\* result of a request
Result(q) ==
    IF q.shape = "algebra"
    THEN LET ms == [i \in DOMAIN q.parts |-> MaskOf(q.parts[i])]
         IN  [masks |-> ms, union |-> UnionM(ms), inter |-> InterM(ms), sub |-> SubM(ms),
              diffdef |-> (Len(ms) = 2), diff |-> IF Len(ms) = 2 THEN DiffM(ms) ELSE {}]
    ELSE [in |-> MaskOf(q), skip |-> SkipOf(q)]

Init == /\ case \in Cases
        /\ out = [in |-> {}, skip |-> {}]
        /\ phase = "request"

Build == /\ phase = "request"
         /\ out' = Result(case)
         /\ phase' = "built"
         /\ UNCHANGED case

\* the same request issued again (model-checking runs only): a constructor is a function of its arguments, so building
\* again - whatever the caller did with the earlier result - yields the same mask and leaves the earlier one alone
Rebuild == /\ EmitMode = "none"
           /\ phase = "built"
           /\ out' = Result(case)
           /\ phase' = "rebuilt"
           /\ UNCHANGED case

Next == Build \/ Rebuild
Spec == Init /\ [][Next]_vars

-----------------------------------------------------------------------------
\* Property clauses (C13), invariants of the built state.  The defining inequalities are the membership predicates
\* above; the clauses below state them voxel by voxel on the built mask plus the structure the statement names
\* (shell = outer solid minus inner solid, name generator = direct constructor, algebra = voxel-wise logic).

Built == phase = "built"
Shape(s) == Built /\ case.shape = s

C13_WellFormed == WellFormed(case)

C13_InsideBox == Built /\ case.shape # "algebra" => out.in \subseteq Box(BoxOf(case)) /\ out.skip \subseteq Box(BoxOf(case))

\* the per-voxel predicates used by the trace specification describe exactly the built sets
C13_MembershipPredicates ==
    Built /\ case.shape \in {"sphere", "cyl", "ell", "sshell", "eshell"} =>
        \A v \in Box(case.n) : (v \in out.in <=> In(case, v)) /\ (v \in out.skip <=> Undecided(case, v))

C13_SphereIsDistanceLeqR ==
    Shape("sphere") => \A v \in Box(case.n) : v \in out.in <=> D2(v, case.c) <= Sq(case.r)

C13_CylinderIsDiscTimesSlab ==
    Shape("cyl") => \A v \in Box(case.n) :
        v \in out.in <=> /\ Sq(v[1] - case.c[1]) + Sq(v[2] - case.c[2]) <= Sq(case.r)
                         /\ v[3] >= case.c[3] - case.h \div 2 /\ v[3] <= case.c[3] + case.h \div 2

\* the defining inequality, cross-multiplied; Euclid's comparison (used for radii > 20) agrees with it
C13_EllipsoidIsNormalisedSumLeq1 ==
    Shape("ell") /\ SmallRadii(case.rr) => \A v \in Box(case.n) :
        /\ v \in out.in <=> InEllX(v, case.c, case.rr)
        /\ InEllX(v, case.c, case.rr) <=> InEllE(v, case.c, case.rr)
        /\ OnEllX(v, case.c, case.rr) <=> OnEllE(v, case.c, case.rr)
        /\ v \in out.skip <=> OnEllX(v, case.c, case.rr) /\ NonZeroOffsets(v, case.c) > 1 /\ ~CalibratedRadii(case.rr)

C13_SphereShellIsOuterMinusInner ==
    Shape("sshell") =>
        LET outer == Sphere(case.n, case.c, Sq(2 * case.r + case.t))
            inner == Sphere(case.n, case.c, Sq(2 * case.r - case.t))
        IN  inner \subseteq outer /\ out.in \cup inner = outer /\ out.in \cap inner = {}

C13_EllipsoidShellIsOuterMinusInner ==
    Shape("eshell") =>
        LET outer == Ell(case.n, case.c, Grow(case.rr, case.t \div 2))
            inner == Ell(case.n, case.c, Grow(case.rr, -(case.t \div 2)))
        IN  inner \subseteq outer /\ out.in \cup inner = outer /\ out.in \cap inner = {}

\* solids contain their centre, are symmetric about it (as far as the box reaches) and grow with the radius
C13_SolidsCentredAndNested ==
    /\ Shape("sphere") => /\ case.c \in out.in
                          /\ \A v \in out.in : LET w == <<2 * case.c[1] - v[1], 2 * case.c[2] - v[2], 2 * case.c[3] - v[3]>>
                                               IN  w \in Box(case.n) => w \in out.in
                          /\ out.in \subseteq Ball(case.n, case.c, case.r + 1)
    /\ Shape("cyl")    => /\ case.c \in out.in
                          /\ out.in \subseteq Cyl(case.n, case.c, case.r + 1, case.h) /\ out.in \subseteq Cyl(case.n, case.c, case.r, case.h + 1)
                          /\ Cyl(case.n, case.c, case.r, 2 * (case.h \div 2)) = out.in          \* only floor(h/2) matters
    /\ Shape("ell")    => /\ case.c \in out.in
                          /\ out.in \subseteq Ell(case.n, case.c, Grow(case.rr, 1))
                          /\ case.rr[1] = case.rr[2] /\ case.rr[2] = case.rr[3] => out.in = Ball(case.n, case.c, case.rr[1])

C13_NameBuildsSameShape ==
    Shape("name") =>
        LET n == NameBox(case.kind, case.nums, case.size, case.exp)
            c == DefaultCentre(n)
            direct == CASE case.kind = "sphere"    -> [shape |-> "sphere", n |-> n, c |-> c, dc |-> TRUE, r |-> case.nums[1]]
                        [] case.kind = "cylinder"  -> [shape |-> "cyl", n |-> n, c |-> c, dc |-> TRUE, r |-> case.nums[1], h |-> case.nums[2]]
                        [] case.kind = "s_shell"   -> [shape |-> "sshell", n |-> n, c |-> c, dc |-> TRUE, r |-> case.nums[1], t |-> case.nums[2]]
                        [] case.kind = "ellipsoid" -> [shape |-> "ell", n |-> n, c |-> c, dc |-> TRUE,
                                                       rr |-> <<case.nums[1], case.nums[2], case.nums[3]>>]
                        [] case.kind = "e_shell"   -> [shape |-> "eshell", n |-> n, c |-> c, dc |-> TRUE,
                                                       rr |-> <<case.nums[1], case.nums[2], case.nums[3]>>, t |-> case.nums[4]]
        IN  WellFormed(direct) /\ out.in = MaskOf(direct) /\ out.skip = SkipOf(direct)

\* union / intersection / subtraction / difference are voxel-wise OR / AND / AND-NOT / XOR
C13_AlgebraIsVoxelwiseLogic ==
    Shape("algebra") =>
        LET ms == out.masks
            k  == Len(ms)
        IN  \A v \in Box(case.n) :
              /\ v \in out.union <=> \E i \in 1..k : v \in ms[i]
              /\ v \in out.inter <=> \A i \in 1..k : v \in ms[i]
              /\ v \in out.sub   <=> v \in ms[1] /\ \A i \in 2..k : v \notin ms[i]
              /\ out.diffdef => (v \in out.diff <=> (v \in ms[1]) # (v \in ms[2]))

\* the list handed to an operation is, after the call, still the same list of the same masks (container and arrays)
C13_InputsUntouched ==
    Shape("algebra") => /\ Len(out.masks) = Len(case.parts)
                        /\ \A i \in DOMAIN case.parts : out.masks[i] = MaskOf(case.parts[i])

C13_AlgebraLaws ==
    Shape("algebra") =>
        LET ms == out.masks
            U  == Box(case.n)
        IN  /\ out.inter \subseteq out.union /\ out.sub \subseteq ms[1]
            /\ U \ out.union = InterM([i \in DOMAIN ms |-> U \ ms[i]])             \* De Morgan
            /\ U \ out.inter = UnionM([i \in DOMAIN ms |-> U \ ms[i]])
            /\ UnionM(<<ms[1], ms[1]>>) = ms[1] /\ InterM(<<ms[1], ms[1]>>) = ms[1]  \* idempotence
            /\ out.diffdef => out.diff = out.union \ out.inter
            /\ Len(ms) = 1 => out.union = ms[1] /\ out.inter = ms[1] /\ out.sub = ms[1]

TypeOK == phase \in {"request", "built", "rebuilt"}

\* calls are independent: no state leaks from one call (or from the caller's use of a returned array) into the next
C13_CallsAreIndependent == [][phase = "built" => out' = out]_vars

-----------------------------------------------------------------------------
\* emission: one JSON record per explored Build step (voxel sets as C-order linear indices)
EmitTR ==
    \/ EmitMode # "tr"
    \/ LET n == BoxOf(case) IN
       IF case.shape = "algebra"
       THEN PrintT(ToJson([case |-> case, n |-> n,
                           masks |-> [i \in DOMAIN out'.masks |-> LinSet(n, out'.masks[i])],
                           union |-> LinSet(n, out'.union), inter |-> LinSet(n, out'.inter),
                           sub |-> LinSet(n, out'.sub), diffdef |-> out'.diffdef, diff |-> LinSet(n, out'.diff)]))
       ELSE PrintT(ToJson([case |-> case, n |-> n,
                           name |-> IF case.shape = "name" THEN NameOf(case.kind, case.nums, case.pad) ELSE "",
                           in |-> LinSet(n, out'.in), skip |-> LinSet(n, out'.skip)]))
=============================================================================

------------------------------- MODULE Masks -------------------------------
(***************************************************************************)
(* C13 - masks: analytic lattice shapes and voxel-wise set algebra.        *)
(*                                                                         *)
(* A mask is the set of voxels <<i, j, k>> (0-based array indices) of a    *)
(* box n = <<n1, n2, n3>> whose value is 1.  Every hard-edged shape of the *)
(* property is the subset of the box cut out by an integer inequality;     *)
(* TLC evaluates these sets exactly.  The machine is a pure function:      *)
(* Init picks a case (the request), Build computes the mask.  The drivers  *)
(* obtain the expected voxel set of each explored Build step as JSON and   *)
(* compare the array returned by cryomask voxel by voxel (mbt/drivers/     *)
(* c13.py); MasksTrace.tla re-uses the membership predicates to re-decide  *)
(* every voxel of masks built in large boxes.                              *)
(*                                                                         *)
(* Units: radii of spheres enter as R2 = (2r)^2 so that the half-integer   *)
(* radii r +- t/2 of shells stay integral.  The ellipsoid inequality       *)
(* sum((v_i-c_i)/r_i)^2 <= 1 is decided exactly without products that      *)
(* leave TLC's 32-bit integers (FracLeq: Euclid's comparison of two        *)
(* fractions).                                                             *)
(***************************************************************************)
EXTENDS Integers, Sequences, FiniteSets, TLC, Json

CONSTANTS
    Cases,          \* set of requests (records, see the constructors below)
    EmitMode        \* "none" | "tr" (print every Build step as JSON)

VARIABLES case, out, phase
vars == <<case, out, phase>>

Abs(x) == IF x < 0 THEN -x ELSE x
Sq(x)  == x * x
Max2(a, b) == IF a >= b THEN a ELSE b
MaxOf(s) == CHOOSE m \in {s[i] : i \in DOMAIN s} : \A i \in DOMAIN s : s[i] <= m

Box(n) == (0 .. n[1] - 1) \X (0 .. n[2] - 1) \X (0 .. n[3] - 1)
DefaultCentre(n) == <<n[1] \div 2, n[2] \div 2, n[3] \div 2>>
Lin(n, v) == (v[1] * n[2] + v[2]) * n[3] + v[3]            \* C-order linear index of a voxel
LinSet(n, S) == {Lin(n, v) : v \in S}

-----------------------------------------------------------------------------
\* membership predicates (shared with MasksTrace)

D2(v, c) == Sq(v[1] - c[1]) + Sq(v[2] - c[2]) + Sq(v[3] - c[3])

\* sphere: distance <= r, with R2 = (2r)^2
InSphere(v, c, R2) == 4 * D2(v, c) <= R2

\* cylinder: planar distance <= r and |k - cz| <= floor(h/2)
InCyl(v, c, r, h) == /\ Sq(v[1] - c[1]) + Sq(v[2] - c[2]) <= Sq(r)
                     /\ Abs(v[3] - c[3]) <= h \div 2

\* a/b <= c/d for a, c >= 0 and b, d > 0, exactly, with no product (continued-fraction comparison)
RECURSIVE FracLeq(_, _, _, _)
FracLeq(a, b, c, d) ==
    LET qa == a \div b
        qc == c \div d
        ra == a % b
        rc == c % d
    IN  IF qa # qc THEN qa < qc
        ELSE IF ra = 0 THEN TRUE
        ELSE IF rc = 0 THEN FALSE
        ELSE FracLeq(d, rc, b, ra)

\* ellipsoid: (dx/a)^2 + (dy/b)^2 + (dz/c)^2 <= 1
\* (X) cross-multiplied, usable while the products stay inside 32 bits (|d| <= 48, radii <= 20: lhs <= 1.2e9)
EllLhs(v, c, rr) == Sq(v[1] - c[1]) * Sq(rr[2]) * Sq(rr[3]) + Sq(v[2] - c[2]) * Sq(rr[1]) * Sq(rr[3])
                      + Sq(v[3] - c[3]) * Sq(rr[1]) * Sq(rr[2])
EllRhs(rr)       == Sq(rr[1]) * Sq(rr[2]) * Sq(rr[3])
InEllX(v, c, rr) == EllLhs(v, c, rr) <= EllRhs(rr)
OnEllX(v, c, rr) == EllLhs(v, c, rr) = EllRhs(rr)
\* (E) for any radii:  (dx^2 b^2 + dy^2 a^2) / (a^2 b^2) <= (c^2 - dz^2) / c^2  by Euclid's comparison
EllNum(v, c, rr) == Sq(v[1] - c[1]) * Sq(rr[2]) + Sq(v[2] - c[2]) * Sq(rr[1])
EllDen(rr)       == Sq(rr[1]) * Sq(rr[2])
InEllE(v, c, rr) == /\ Sq(v[3] - c[3]) <= Sq(rr[3])
                    /\ FracLeq(EllNum(v, c, rr), EllDen(rr), Sq(rr[3]) - Sq(v[3] - c[3]), Sq(rr[3]))
OnEllE(v, c, rr) == /\ InEllE(v, c, rr)
                    /\ FracLeq(Sq(rr[3]) - Sq(v[3] - c[3]), Sq(rr[3]), EllNum(v, c, rr), EllDen(rr))
SmallRadii(rr) == rr[1] <= 20 /\ rr[2] <= 20 /\ rr[3] <= 20
InEll(v, c, rr) == IF SmallRadii(rr) THEN InEllX(v, c, rr) ELSE InEllE(v, c, rr)
\* exactly on the surface
OnEll(v, c, rr) == IF SmallRadii(rr) THEN OnEllX(v, c, rr) ELSE OnEllE(v, c, rr)
NonZeroOffsets(v, c) == Cardinality({i \in 1..3 : v[i] # c[i]})
\* surface voxels that are not on an axis through the centre: the float expression (3/5)^2 + (4/5)^2 need not
\* evaluate to 1.0, so the property cannot be decided there and these voxels are not compared
EllUndecided(v, c, rr) == OnEll(v, c, rr) /\ NonZeroOffsets(v, c) > 1

-----------------------------------------------------------------------------
\* the shapes as voxel sets

Sphere(n, c, R2)     == {v \in Box(n) : InSphere(v, c, R2)}
Ball(n, c, r)        == Sphere(n, c, Sq(2 * r))
Cyl(n, c, r, h)      == {v \in Box(n) : InCyl(v, c, r, h)}
Ell(n, c, rr)        == {v \in Box(n) : InEll(v, c, rr)}
EllSkip(n, c, rr)    == {v \in Box(n) : EllUndecided(v, c, rr)}
\* shells: outer solid minus inner solid, radii r +- t/2
SShell(n, c, r, t)   == Sphere(n, c, Sq(2 * r + t)) \ Sphere(n, c, Sq(2 * r - t))
Grow(rr, d)          == <<rr[1] + d, rr[2] + d, rr[3] + d>>
EShell(n, c, rr, t)  == Ell(n, c, Grow(rr, t \div 2)) \ Ell(n, c, Grow(rr, -(t \div 2)))
EShellSkip(n, c, rr, t) == EllSkip(n, c, Grow(rr, t \div 2)) \cup EllSkip(n, c, Grow(rr, -(t \div 2)))

\* the name grammar of generate_mask / parse_shape_string
NameOf(kind, nums) ==
    CASE kind = "sphere"    -> "sphere_r" \o ToString(nums[1])
      [] kind = "cylinder"  -> "cylinder_r" \o ToString(nums[1]) \o "_h" \o ToString(nums[2])
      [] kind = "s_shell"   -> "s_shell_r" \o ToString(nums[1]) \o "_s" \o ToString(nums[2])
      [] kind = "ellipsoid" -> "ellipsoid_rx" \o ToString(nums[1]) \o "_ry" \o ToString(nums[2]) \o "_rz" \o ToString(nums[3])
      [] kind = "e_shell"   -> "e_shell_rx" \o ToString(nums[1]) \o "_ry" \o ToString(nums[2]) \o "_rz" \o ToString(nums[3])
                                 \o "_s" \o ToString(nums[4])
EvenUp(x) == 2 * ((x + 1) \div 2)
\* edge of the cubic box: the requested one, else 2 max(numbers) + 4 rounded up to even; spherical shells add the thickness
NameEdge(kind, nums, size) ==
    LET base == IF size > 0 THEN size ELSE EvenUp(2 * MaxOf(nums) + 4)
    IN  IF kind = "s_shell" THEN EvenUp(base + nums[2]) ELSE base
NameBox(kind, nums, size) == LET e == NameEdge(kind, nums, size) IN <<e, e, e>>
FromName(kind, nums, size) ==
    LET n == NameBox(kind, nums, size)
        c == DefaultCentre(n)
    IN  CASE kind = "sphere"    -> Ball(n, c, nums[1])
          [] kind = "cylinder"  -> Cyl(n, c, nums[1], nums[2])
          [] kind = "s_shell"   -> SShell(n, c, nums[1], nums[2])
          [] kind = "ellipsoid" -> Ell(n, c, <<nums[1], nums[2], nums[3]>>)
          [] kind = "e_shell"   -> EShell(n, c, <<nums[1], nums[2], nums[3]>>, nums[4])
NameSkip(kind, nums, size) ==
    LET n == NameBox(kind, nums, size)
        c == DefaultCentre(n)
    IN  CASE kind = "ellipsoid" -> EllSkip(n, c, <<nums[1], nums[2], nums[3]>>)
          [] kind = "e_shell"   -> EShellSkip(n, c, <<nums[1], nums[2], nums[3]>>, nums[4])
          [] OTHER -> {}

-----------------------------------------------------------------------------
\* voxel-set algebra on a list (sequence) of masks
UnionM(ms) == UNION {ms[i] : i \in DOMAIN ms}
InterM(ms) == {v \in ms[1] : \A i \in DOMAIN ms : v \in ms[i]}
SubM(ms)   == ms[1] \ UNION {ms[i] : i \in 2 .. Len(ms)}
Xor(a, b)  == (a \ b) \cup (b \ a)
DiffM(ms)  == Xor(ms[1], ms[2])                       \* stated for two masks only

-----------------------------------------------------------------------------
\* requests
\*   [shape |-> "sphere",  n, c, dc, r]            dc = TRUE: the centre is left to the default (c = DefaultCentre(n))
\*   [shape |-> "cyl",     n, c, dc, r, h]
\*   [shape |-> "ell",     n, c, dc, rr]           even boxes
\*   [shape |-> "sshell",  n, c, dc, r, t]         2r >= t
\*   [shape |-> "eshell",  n, c, dc, rr, t]        even boxes, t even, rr[i] - t/2 >= 1
\*   [shape |-> "name",    kind, nums, size]       size = 0: default box
\*   [shape |-> "bits",    n, bit]                 truth-table mask: voxel v belongs iff bit `bit` of Lin(v) is set
\*   [shape |-> "algebra", n, parts]               parts: sequence of 1..5 requests with the same box
Pow2(e) == IF e = 0 THEN 1 ELSE IF e = 1 THEN 2 ELSE IF e = 2 THEN 4 ELSE IF e = 3 THEN 8 ELSE 16
BoxOf(q) == IF q.shape = "name" THEN NameBox(q.kind, q.nums, q.size) ELSE q.n

MaskOf(q) ==
    CASE q.shape = "sphere" -> Ball(q.n, q.c, q.r)
      [] q.shape = "cyl"    -> Cyl(q.n, q.c, q.r, q.h)
      [] q.shape = "ell"    -> Ell(q.n, q.c, q.rr)
      [] q.shape = "sshell" -> SShell(q.n, q.c, q.r, q.t)
      [] q.shape = "eshell" -> EShell(q.n, q.c, q.rr, q.t)
      [] q.shape = "name"   -> FromName(q.kind, q.nums, q.size)
      [] q.shape = "bits"   -> {v \in Box(q.n) : (Lin(q.n, v) \div Pow2(q.bit - 1)) % 2 = 1}

SkipOf(q) ==
    CASE q.shape = "ell"    -> EllSkip(q.n, q.c, q.rr)
      [] q.shape = "eshell" -> EShellSkip(q.n, q.c, q.rr, q.t)
      [] q.shape = "name"   -> NameSkip(q.kind, q.nums, q.size)
      [] OTHER -> {}

WellFormed(q) ==
    CASE q.shape = "sphere" -> q.r >= 1 /\ q.c \in Box(q.n) /\ (q.dc => q.c = DefaultCentre(q.n))
      [] q.shape = "cyl"    -> q.r >= 1 /\ q.h >= 1 /\ q.c \in Box(q.n) /\ (q.dc => q.c = DefaultCentre(q.n))
      [] q.shape = "ell"    -> /\ \A i \in 1..3 : q.rr[i] >= 1 /\ q.n[i] % 2 = 0
                               /\ q.c \in Box(q.n) /\ (q.dc => q.c = DefaultCentre(q.n))
      [] q.shape = "sshell" -> q.t >= 1 /\ 2 * q.r >= q.t /\ q.c \in Box(q.n) /\ (q.dc => q.c = DefaultCentre(q.n))
      [] q.shape = "eshell" -> /\ q.t >= 2 /\ q.t % 2 = 0
                               /\ \A i \in 1..3 : q.rr[i] - q.t \div 2 >= 1 /\ q.n[i] % 2 = 0
                               /\ q.c \in Box(q.n) /\ (q.dc => q.c = DefaultCentre(q.n))
      [] q.shape = "name"   -> /\ \A i \in DOMAIN q.nums : q.nums[i] >= 1
                               /\ q.kind = "s_shell" => 2 * q.nums[1] >= q.nums[2] /\ q.size = 0
                               /\ q.kind = "e_shell" => /\ q.nums[4] % 2 = 0
                                                        /\ \A i \in 1..3 : q.nums[i] - q.nums[4] \div 2 >= 1
                               /\ q.kind \in {"ellipsoid", "e_shell"} => q.size % 2 = 0
      [] q.shape = "bits"   -> q.bit \in 1..5
      [] q.shape = "algebra" -> /\ Len(q.parts) \in 1..5
                                /\ \A i \in DOMAIN q.parts : q.parts[i].shape # "algebra" /\ BoxOf(q.parts[i]) = q.n

\* result of a request
Result(q) ==
    IF q.shape = "algebra"
    THEN LET ms == [i \in DOMAIN q.parts |-> MaskOf(q.parts[i])]
         IN  [masks |-> ms, union |-> UnionM(ms), inter |-> InterM(ms), sub |-> SubM(ms),
              diffdef |-> (Len(ms) = 2), diff |-> IF Len(ms) = 2 THEN DiffM(ms) ELSE {}]
    ELSE [in |-> MaskOf(q), skip |-> SkipOf(q)]

Init == /\ case \in Cases
        /\ out = [in |-> {}, skip |-> {}]
        /\ phase = "request"

Build == /\ phase = "request"
         /\ out' = Result(case)
         /\ phase' = "built"
         /\ UNCHANGED case

Next == Build
Spec == Init /\ [][Next]_vars

-----------------------------------------------------------------------------
\* Property clauses (C13), invariants of the built state.  The defining inequalities are the membership predicates
\* above; the clauses below state them voxel by voxel on the built mask plus the structure the statement names
\* (shell = outer solid minus inner solid, name generator = direct constructor, algebra = voxel-wise logic).

Built == phase = "built"
Shape(s) == Built /\ case.shape = s

C13_WellFormed == WellFormed(case)

C13_InsideBox == Built /\ case.shape # "algebra" => out.in \subseteq Box(BoxOf(case)) /\ out.skip \subseteq Box(BoxOf(case))

C13_SphereIsDistanceLeqR ==
    Shape("sphere") => \A v \in Box(case.n) : v \in out.in <=> D2(v, case.c) <= Sq(case.r)

C13_CylinderIsDiscTimesSlab ==
    Shape("cyl") => \A v \in Box(case.n) :
        v \in out.in <=> /\ Sq(v[1] - case.c[1]) + Sq(v[2] - case.c[2]) <= Sq(case.r)
                         /\ v[3] >= case.c[3] - case.h \div 2 /\ v[3] <= case.c[3] + case.h \div 2

\* the defining inequality, cross-multiplied; Euclid's comparison (used for radii > 20) agrees with it
C13_EllipsoidIsNormalisedSumLeq1 ==
    Shape("ell") /\ SmallRadii(case.rr) => \A v \in Box(case.n) :
        /\ v \in out.in <=> InEllX(v, case.c, case.rr)
        /\ InEllX(v, case.c, case.rr) <=> InEllE(v, case.c, case.rr)
        /\ OnEllX(v, case.c, case.rr) <=> OnEllE(v, case.c, case.rr)
        /\ v \in out.skip <=> OnEllX(v, case.c, case.rr) /\ NonZeroOffsets(v, case.c) > 1

C13_SphereShellIsOuterMinusInner ==
    Shape("sshell") =>
        LET outer == Sphere(case.n, case.c, Sq(2 * case.r + case.t))
            inner == Sphere(case.n, case.c, Sq(2 * case.r - case.t))
        IN  inner \subseteq outer /\ out.in \cup inner = outer /\ out.in \cap inner = {}

C13_EllipsoidShellIsOuterMinusInner ==
    Shape("eshell") =>
        LET outer == Ell(case.n, case.c, Grow(case.rr, case.t \div 2))
            inner == Ell(case.n, case.c, Grow(case.rr, -(case.t \div 2)))
        IN  inner \subseteq outer /\ out.in \cup inner = outer /\ out.in \cap inner = {}

\* solids contain their centre, are symmetric about it (as far as the box reaches) and grow with the radius
C13_SolidsCentredAndNested ==
    /\ Shape("sphere") => /\ case.c \in out.in
                          /\ \A v \in out.in : LET w == <<2 * case.c[1] - v[1], 2 * case.c[2] - v[2], 2 * case.c[3] - v[3]>>
                                               IN  w \in Box(case.n) => w \in out.in
                          /\ out.in \subseteq Ball(case.n, case.c, case.r + 1)
    /\ Shape("cyl")    => /\ case.c \in out.in
                          /\ out.in \subseteq Cyl(case.n, case.c, case.r + 1, case.h) /\ out.in \subseteq Cyl(case.n, case.c, case.r, case.h + 1)
                          /\ Cyl(case.n, case.c, case.r, 2 * (case.h \div 2)) = out.in          \* only floor(h/2) matters
    /\ Shape("ell")    => /\ case.c \in out.in
                          /\ out.in \subseteq Ell(case.n, case.c, Grow(case.rr, 1))
                          /\ case.rr[1] = case.rr[2] /\ case.rr[2] = case.rr[3] => out.in = Ball(case.n, case.c, case.rr[1])

C13_NameBuildsSameShape ==
    Shape("name") =>
        LET n == NameBox(case.kind, case.nums, case.size)
            c == DefaultCentre(n)
            direct == CASE case.kind = "sphere"    -> [shape |-> "sphere", n |-> n, c |-> c, dc |-> TRUE, r |-> case.nums[1]]
                        [] case.kind = "cylinder"  -> [shape |-> "cyl", n |-> n, c |-> c, dc |-> TRUE, r |-> case.nums[1], h |-> case.nums[2]]
                        [] case.kind = "s_shell"   -> [shape |-> "sshell", n |-> n, c |-> c, dc |-> TRUE, r |-> case.nums[1], t |-> case.nums[2]]
                        [] case.kind = "ellipsoid" -> [shape |-> "ell", n |-> n, c |-> c, dc |-> TRUE,
                                                       rr |-> <<case.nums[1], case.nums[2], case.nums[3]>>]
                        [] case.kind = "e_shell"   -> [shape |-> "eshell", n |-> n, c |-> c, dc |-> TRUE,
                                                       rr |-> <<case.nums[1], case.nums[2], case.nums[3]>>, t |-> case.nums[4]]
        IN  WellFormed(direct) /\ out.in = MaskOf(direct) /\ out.skip = SkipOf(direct)

\* union / intersection / subtraction / difference are voxel-wise OR / AND / AND-NOT / XOR
C13_AlgebraIsVoxelwiseLogic ==
    Shape("algebra") =>
        LET ms == out.masks
            k  == Len(ms)
        IN  \A v \in Box(case.n) :
              /\ v \in out.union <=> \E i \in 1..k : v \in ms[i]
              /\ v \in out.inter <=> \A i \in 1..k : v \in ms[i]
              /\ v \in out.sub   <=> v \in ms[1] /\ \A i \in 2..k : v \notin ms[i]
              /\ out.diffdef => (v \in out.diff <=> (v \in ms[1]) # (v \in ms[2]))

C13_AlgebraLaws ==
    Shape("algebra") =>
        LET ms == out.masks
            U  == Box(case.n)
        IN  /\ out.inter \subseteq out.union /\ out.sub \subseteq ms[1]
            /\ U \ out.union = InterM([i \in DOMAIN ms |-> U \ ms[i]])             \* De Morgan
            /\ U \ out.inter = UnionM([i \in DOMAIN ms |-> U \ ms[i]])
            /\ UnionM(<<ms[1], ms[1]>>) = ms[1] /\ InterM(<<ms[1], ms[1]>>) = ms[1]  \* idempotence
            /\ out.diffdef => out.diff = out.union \ out.inter
            /\ Len(ms) = 1 => out.union = ms[1] /\ out.inter = ms[1] /\ out.sub = ms[1]

TypeOK == phase \in {"request", "built"}

-----------------------------------------------------------------------------
\* emission: one JSON record per explored Build step (voxel sets as C-order linear indices)
PartJ(q) == [shape |-> q.shape]
EmitTR ==
    \/ EmitMode # "tr"
    \/ LET n == BoxOf(case) IN
       IF case.shape = "algebra"
       THEN PrintT(ToJson([case |-> [shape |-> "algebra", n |-> n, parts |-> [i \in DOMAIN case.parts |-> PartJ(case.parts[i])]],
                           n |-> n,
                           masks |-> [i \in DOMAIN out'.masks |-> LinSet(n, out'.masks[i])],
                           union |-> LinSet(n, out'.union), inter |-> LinSet(n, out'.inter),
                           sub |-> LinSet(n, out'.sub), diffdef |-> out'.diffdef, diff |-> LinSet(n, out'.diff)]))
       ELSE PrintT(ToJson([case |-> case, n |-> n,
                           name |-> IF case.shape = "name" THEN NameOf(case.kind, case.nums) ELSE "",
                           in |-> LinSet(n, out'.in), skip |-> LinSet(n, out'.skip)]))
=============================================================================

----------------------------- MODULE MC_Fourier -----------------------------
(* Model-checking configurations of Fourier.tla: one small (non-cubic) box chosen by the driver, every cutoff  *)
(* 1 .. max(n) div 2 (hard: every pair rh <= rl; soft: every width f = 4 sigma in 0..16), a grid of          *)
(* resolution requests; and requests drawn by the driver (seeded) read from IOEnv.CASE_FILE.                  *)
EXTENDS Fourier, IOUtils

CONSTANTS N1, N2, N3, Edges, Px, Res

NB == <<N1, N2, N3>>
MaxN == IF N1 >= N2 /\ N1 >= N3 THEN N1 ELSE IF N2 >= N3 THEN N2 ELSE N3
Cut == 1 .. (MaxN \div 2)
Cut0 == 0 .. (MaxN \div 2)          \* the hard-edged filters also at cutoff 0 (only the zero frequency passes)

HardCases   == {q \in {[kind |-> "hard", n |-> NB, rl |-> a, rh |-> b] : a \in Cut0, b \in Cut0} : q.rh <= q.rl}
SoftCases   == {[kind |-> "soft", n |-> NB, r |-> r, f |-> f] : r \in Cut, f \in 0..16}
PixelCases  == {[kind |-> "pixels", edge |-> e, px100 |-> p, res100 |-> s] : e \in Edges, p \in Px, s \in Res}
SmallCases  == HardCases \cup SoftCases \cup PixelCases
L2Cases     == HardCases \cup PixelCases

FileSeq == ndJsonDeserialize(IOEnv.CASE_FILE)
FileCases == {FileSeq[i] : i \in DOMAIN FileSeq}
=============================================================================

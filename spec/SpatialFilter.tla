--------------------------- MODULE SpatialFilter ---------------------------
(***************************************************************************)
(* C09 - spatial filters keep exactly the particles that lie inside.       *)
(*                                                                         *)
(* Positions live on the 1/8-voxel lattice (U = 8 units per voxel), so the *)
(* inside tests are integer inequalities.  A particle is                   *)
(*    [id, t (tomogram), x (extraction position), s (shift)]               *)
(* and its complete position is x + s.  A case is a particle list, the     *)
(* dimensions of every tomogram (voxels) and one filter call:              *)
(*   oob    [kind "center"|"whole", box]   remove_out_of_bounds_particles  *)
(*   trim   [start, end] (voxels)           adapt_to_trimming               *)
(*   points [pts = {[t, pos]}, r] (lattice) clean_by_distance_to_points     *)
(*   mask   [tl, masks[t] = [shape, zero], form]  clean_by_tomo_mask         *)
(*          form = how the caller stores the masks: "array", "em", "mrc",   *)
(*          "rec" (file paths), "mixed"; voxel (i,j,k) of a mask is the     *)
(*          same voxel in every form                                        *)
(* A case carries a sequence of 1..3 such calls (field ops) that are       *)
(* applied one after the other to the same list with the SAME dimension    *)
(* table / point table / mask list: every call is judged with the original *)
(* argument values, whatever the earlier calls did.  Init picks the case,  *)
(* each Apply step performs the next call on the survivors of the previous *)
(* one; the clauses C09_* are invariants of every step and are phrased     *)
(* with the *removal witnesses* (which face / which point / which voxel),  *)
(* not with the operators that compute the result.                         *)
(***************************************************************************)
EXTENDS Integers, Sequences, FiniteSets, TLC, Json

CONSTANTS Cases        \* set of cases [id, ps, dims, ops]

VARIABLES cs,       \* the case
          nc,       \* number of calls performed
          prev,     \* the list the last call was applied to
          res       \* its result (res.ps = the current list)
vars == <<cs, nc, prev, res>>
done == nc > 0

U == 8
Axes == 1..3
Cpl(p) == [i \in Axes |-> p.x[i] + p.s[i]]                 \* complete position
Ids(ps) == { ps[k].id : k \in DOMAIN ps }

-----------------------------------------------------------------------------
(* 1. The filters as functions: which particles survive, and with which coordinates *)

\* out of bounds: the centre (whatever box size accompanies the call), or - boundary type 'whole' - the box of the
\* given size around it (half-width ceil(box/2)), inside [0, dim)
HalfWidth(op) == IF op.kind = "whole" THEN ((op.box + 1) \div 2) * U ELSE 0
LowerOK(p, h) == \A i \in Axes : Cpl(p)[i] - h >= 0
UpperOK(p, h, dim) == \A i \in Axes : Cpl(p)[i] + h < dim[i] * U
InsideOOB(c, p) == LowerOK(p, HalfWidth(c.op)) /\ UpperOK(p, HalfWidth(c.op), c.dims[p.t])
\* "lower": leaves the volume only through lower faces; "upper": through at least one upper face
StatusOOB(c, p) == IF InsideOOB(c, p) THEN "in"
                   ELSE IF UpperOK(p, HalfWidth(c.op), c.dims[p.t]) THEN "lower" ELSE "upper"

\* trimming: x relative to the trimmed volume [start, end] (voxel numbers, inclusive), kept iff 1 <= x' <= size
TrimX(op, p) == [i \in Axes |-> p.x[i] - (op.start[i] - 1) * U]
InsideTrim(op, p) == \A i \in Axes : TrimX(op, p)[i] >= U /\ TrimX(op, p)[i] <= (op.end[i] - op.start[i] + 1) * U

\* reference points: squared lattice distance to a point of the same tomogram
D2(a, b) == (a[1] - b[1]) * (a[1] - b[1]) + (a[2] - b[2]) * (a[2] - b[2]) + (a[3] - b[3]) * (a[3] - b[3])
NearPoint(op, p) == \E q \in op.pts : q.t = p.t /\ D2(Cpl(p), q.pos) <= op.r * op.r
\* a particle exactly on the radius of a point (r and all coordinates are lattice values, so d = r is exact in
\* binary floating point as well): it is within the radius and is removed
TiePoint(op, p) == \E q \in op.pts : q.t = p.t /\ D2(Cpl(p), q.pos) = op.r * op.r

\* mask: voxel index of a position that is inside the volume under both index conventions (see MaskAmbiguous)
InBand(v, n) == v >= U /\ v < n * U
OutBand(v, n) == v <= -U \/ v >= (n + 1) * U
Vox(p) == [i \in Axes |-> Cpl(p)[i] \div U]
InVolume(m, p) == \A i \in Axes : InBand(Cpl(p)[i], m.shape[i])
OnZero(op, p) == p.t \in op.tl /\ InVolume(op.masks[p.t], p) /\ Vox(p) \in op.masks[p.t].zero
\* The property does not say whether voxel int(c) or voxel c-1 is "under" a particle, nor which of the two
\* half-open boxes is "the mask volume": a case is ambiguous (and is not run) when the two readings disagree
MaskAmbiguous(op, p) ==
    /\ p.t \in op.tl
    /\ LET m == op.masks[p.t] IN
       \/ \E i \in Axes : ~InBand(Cpl(p)[i], m.shape[i]) /\ ~OutBand(Cpl(p)[i], m.shape[i])
       \/ /\ InVolume(m, p)
          /\ (Vox(p) \in m.zero) # ([i \in Axes |-> Vox(p)[i] - 1] \in m.zero)

Survives(c, p) == CASE c.op.name = "oob" -> InsideOOB(c, p)
                    [] c.op.name = "trim" -> InsideTrim(c.op, p)
                    [] c.op.name = "points" -> ~NearPoint(c.op, p)
                    [] c.op.name = "mask" -> ~OnZero(c.op, p)

After(c, p) == IF c.op.name = "trim" THEN [p EXCEPT !.x = TrimX(c.op, p)] ELSE p

\* (box sizes of either parity: the half-width is ceil(box/2) voxels, the convention DESIGN adopts for 'whole')
Ambiguous(c) == CASE c.op.name = "oob" -> FALSE
                  [] c.op.name = "trim" -> FALSE
                  [] c.op.name = "points" -> FALSE    \* on the lattice a tie (distance = r) is exact: "within the radius" removes it
                  [] c.op.name = "mask" -> \E k \in DOMAIN c.ps : MaskAmbiguous(c.op, c.ps[k])

Result(c) == LET kept == SelectSeq(c.ps, LAMBDA p : Survives(c, p))
             IN  [ps |-> [k \in DOMAIN kept |-> After(c, kept[k])],
                  status |-> IF c.op.name = "oob" THEN [k \in DOMAIN c.ps |-> StatusOOB(c, c.ps[k])] ELSE <<>>,
                  amb |-> Ambiguous(c)]

-----------------------------------------------------------------------------
(* 2. One step per call of the case *)

\* the call about to be made / just made, as a single-call case on the list it is applied to
CallOn(ps, k) == [id |-> cs.id, ps |-> ps, dims |-> cs.dims, op |-> cs.ops[k]]

Init == cs \in Cases /\ nc = 0 /\ prev = <<>> /\ res = [ps |-> cs.ps, status |-> <<>>, amb |-> FALSE]
Apply == /\ nc < Len(cs.ops) /\ ~res.amb
         /\ nc' = nc + 1
         /\ prev' = res.ps
         /\ res' = Result(CallOn(res.ps, nc + 1))
         /\ UNCHANGED cs
Spec == Init /\ [][Apply]_vars

-----------------------------------------------------------------------------
(* 3. The clauses, on the result of every case *)

Case == CallOn(prev, nc)
Orig(id) == CHOOSE p \in { Case.ps[k] : k \in DOMAIN Case.ps } : p.id = id
KeptIds == Ids(res.ps)

\* a removal witness: the face the (box around the) complete position crosses, on the lower as well as the upper
\* side, measured with the dimensions of the particle's own tomogram
CrossesFace(c, p) == \E i \in Axes : \/ Cpl(p)[i] - HalfWidth(c.op) < 0
                                     \/ Cpl(p)[i] + HalfWidth(c.op) >= c.dims[p.t][i] * U
\* outside the trimmed volume, in the coordinates of the untrimmed tomogram
OutsideTrim(op, p) == \E i \in Axes : p.x[i] < op.start[i] * U \/ p.x[i] > op.end[i] * U
\* every point of the same tomogram is farther than r
ClearOfPoints(op, p) == \A q \in op.pts : q.t = p.t => D2(Cpl(p), q.pos) > op.r * op.r

Removed(c, p) == CASE c.op.name = "oob" -> CrossesFace(c, p)
                   [] c.op.name = "trim" -> OutsideTrim(c.op, p)
                   [] c.op.name = "points" -> ~ClearOfPoints(c.op, p)
                   [] c.op.name = "mask" -> OnZero(c.op, p)

C09_ExactInsideSet ==
    done /\ ~res.amb => \A k \in DOMAIN Case.ps : (Case.ps[k].id \in KeptIds) <=> ~Removed(Case, Case.ps[k])

C09_SurvivorsUntouched ==
    done => /\ Cardinality(KeptIds) = Len(res.ps)
            /\ KeptIds \subseteq Ids(Case.ps)
            /\ \A k \in DOMAIN res.ps :
                  LET q == res.ps[k]
                      p == Orig(q.id)
                  IN  /\ q.t = p.t /\ q.s = p.s
                      /\ IF Case.op.name = "trim"
                         THEN \A i \in Axes : q.x[i] = p.x[i] - (Case.op.start[i] - 1) * U
                         ELSE q.x = p.x

\* the dimensions that decide are those of the particle's own tomogram: changing any other tomogram's dimensions
\* (here: to a 1-voxel volume) never changes a particle's fate
C09_PerTomogramDims ==
    done /\ Case.op.name = "oob" =>
        \A k \in DOMAIN Case.ps :
            LET p == Case.ps[k]
                other == [Case EXCEPT !.dims = [t \in DOMAIN Case.dims |-> IF t = p.t THEN Case.dims[t] ELSE <<1, 1, 1>>]]
            IN  InsideOOB(other, p) = (p.id \in KeptIds)

\* the box of a 'whole' filter contains its centre, and a larger box is never kept where a smaller one is not
C09_WholeImpliesCenter ==
    done /\ Case.op.name = "oob" /\ Case.op.kind = "whole" =>
        \A k \in DOMAIN Case.ps :
            Case.ps[k].id \in KeptIds =>
                /\ InsideOOB([Case EXCEPT !.op.kind = "center"], Case.ps[k])
                /\ (Case.op.box >= 2 => InsideOOB([Case EXCEPT !.op.box = Case.op.box - 2], Case.ps[k]))

\* Frame condition: the particle list a call starts from, the dimension table, the point tables, the tomogram and
\* mask lists are the case (cs); no call changes them.  (Observed counterpart in the driver: mbt/argguard.py snapshots
\* of every argument object, of the list a non-inplace call was made on and of the results of earlier calls.)
C09_ArgumentsUntouched == [][cs' = cs]_vars

\* the storage form of the masks is an attribute of the call only: it never changes which particles survive
MaskForms == {"array", "em", "mrc", "rec", "mixed"}
C09_MaskFormIrrelevant ==
    done /\ Case.op.name = "mask" =>
        /\ Case.op.form \in MaskForms
        /\ \A f \in MaskForms : Result([Case EXCEPT !.op.form = f]).ps = res.ps

TypeOK == nc \in 0..Len(cs.ops) /\ (~done => res.ps = cs.ps)

-----------------------------------------------------------------------------
\* emission: one record per call
PJ(ps) == [k \in DOMAIN ps |-> <<ps[k].id, ps[k].t, ps[k].x[1], ps[k].x[2], ps[k].x[3], ps[k].s[1], ps[k].s[2], ps[k].s[3]>>]
Emit == \/ ~done
        \/ PrintT(<<"RES", ToJson([id |-> cs.id, step |-> nc, ps |-> PJ(res.ps), status |-> res.status, amb |-> res.amb,
                                   ties |-> IF Case.op.name = "points"
                                            THEN Cardinality({ k \in DOMAIN prev : TiePoint(Case.op, prev[k]) }) ELSE 0])>>)
=============================================================================

------------------------------ MODULE MC_Pose ------------------------------
(* Model-checking configurations of Pose.tla: small exhaustive scope and the simulation scope. *)
EXTENDS Pose

P(x, s, R, t) == [x |-> x, s |-> s, R |-> R, t |-> t]

\* positions (multiples of U = 8) of either sign, shifts with exact half-voxel ties (+-4, 12) and off-lattice eighths
\* incl. a non-integral extraction position (1.5, -2.5, 5.5 voxels): with a zero shift only the position itself says
\* that an update has something to do
XSet == { <<16, 24, 40>>, <<-16, 0, 8>>, <<12, -20, 44>> }
SSet == { <<0, 0, 0>>, <<4, -4, 12>>, <<-3, 20, -12>>, <<1, -5, 2>> }

Second == P(<<24, 8, 16>>, <<4, -4, 0>>, Rx1, 2)

SmallInit == { <<P(x, s, R, 1), Second>> : x \in XSet, s \in SSet, R \in All }

SimInit == { <<P(x, s, R, 1), P(<<24, 8, 16>>, s2, R2, 2), P(<<-8, 80, 8>>, <<2, 2, -2>>, Mul(R, R2), 1)>> :
                x \in XSet, s \in SSet, s2 \in {<<4, -4, 0>>, <<-12, 7, 1>>}, R \in All, R2 \in {Rx1, Ry1, Mul(Rz1, Rx1)} }

MCShifts == { <<8, 0, 0>>, <<0, -4, 0>>, <<4, 8, -12>> }
MCFactors == { <<2, 1>>, <<3, 1>>, <<1, 2>> }
MCDimZ == (1 :> 48) @@ (2 :> 64)
MCRots == All
SimRots == { Rz1, Rx1, Ry1, Mul(Rz1, Rx1), Inv(Ry1), Mul(Rx1, Rx1) }
=============================================================================

------------------------------ MODULE MC_Dose ------------------------------
(* Model-checking configuration of Dose.tla: dose vectors of 1..3 images over a small dose alphabet (incl. 0, equal   *)
(* doses, unsorted orders), every filter variant.                                                                      *)
EXTENDS Dose
Alphabet == {0, 1250, 5000, 12000, 30000}          \* 0, 12.5, 50, 120, 300 e/A^2
MCDoseVectors == {<<a>> : a \in Alphabet} \cup {<<a, b>> : a \in Alphabet, b \in Alphabet}
                   \cup {<<a, b, c>> : a \in Alphabet, b \in Alphabet, c \in Alphabet}
MCVariants == {"spec", "const2pc", "half", "reversed", "wrongdim", "dc"}
=============================================================================

------------------------------- MODULE Fourier -------------------------------
(***************************************************************************)
(* C12 - Fourier filters are the documented radial low/high/band-pass      *)
(* gains.  The machine is a pure function: Init picks a request, Design    *)
(* computes the filter as the statement defines it.                        *)
(*   [kind |-> "hard",   n, rl, rh]          hard-edged low-pass (cutoff   *)
(*        rl), its high-pass, the low-pass with cutoff rh <= rl and the    *)
(*        band-pass (low-pass rl, high-pass rh): sets of passed frequencies*)
(*   [kind |-> "soft",   n, r, f]            class table of the low-pass   *)
(*        with Gaussian edge sigma = f/4                                   *)
(*   [kind |-> "pixels", edge, px100, res100]  resolution -> pixels        *)
(* The driver obtains the hard-edged sets and the pixel counts as JSON     *)
(* (L2) and compares the transfer functions measured on cryomap.lowpass /  *)
(* highpass / bandpass; FourierTrace.tla validates measured gain tables of *)
(* soft and hard filters in boxes up to 48 per axis (L3).                  *)
(***************************************************************************)
EXTENDS FourierGain, Json

CONSTANTS Cases, EmitMode

VARIABLES case, out, phase
vars == <<case, out, phase>>

WellFormed(q) ==
    CASE q.kind = "hard"   -> q.rl >= 0 /\ q.rh >= 0 /\ q.rh <= q.rl /\ \A i \in 1..3 : q.n[i] >= 2
      [] q.kind = "soft"   -> q.r >= 1 /\ q.f >= 0 /\ q.f <= 16 /\ \A i \in 1..3 : q.n[i] >= 2
      [] q.kind = "pixels" -> q.edge >= 1 /\ q.px100 >= 1 /\ q.res100 >= 1

Result(q) ==
    CASE q.kind = "hard"   -> [lp |-> LP(q.n, q.rl), hp |-> HP(q.n, q.rl), lp2 |-> LP(q.n, q.rh), bp |-> BP(q.n, q.rl, q.rh)]
      [] q.kind = "soft"   -> [cls |-> [k \in Freq(q.n) |-> Class(k, q.r, q.f)]]
      [] q.kind = "pixels" -> [pixels |-> Pixels(q.edge, q.px100, q.res100), tie |-> PixelsTie(q.edge, q.px100, q.res100),
                               decided |-> PixelsDecided(q.edge, q.px100, q.res100),
                               \* the statement quantifies over cutoffs 1 .. N/2
                               inscope |-> Pixels(q.edge, q.px100, q.res100) >= 1 /\ 2 * Pixels(q.edge, q.px100, q.res100) <= q.edge]

Init == case \in Cases /\ out = [none |-> TRUE] /\ phase = "request"
Design == phase = "request" /\ out' = Result(case) /\ phase' = "designed" /\ UNCHANGED case
Next == Design
Spec == Init /\ [][Next]_vars

-----------------------------------------------------------------------------
\* Property clauses (C12) as invariants of the designed state
Designed(kd) == phase = "designed" /\ case.kind = kd
Zero3 == <<0, 0, 0>>

C12_WellFormed == WellFormed(case)
TypeOK == phase \in {"request", "designed"}

\* without a soft edge the gain is exactly 1 up to the cutoff radius and 0 beyond it: a function of the integer radius
C12_HardEdgeIsRadialStep ==
    Designed("hard") => \A k \in Freq(case.n) :
        /\ k \in out.lp <=> Norm2(k) <= Sq(case.rl)
        /\ \A m \in Freq(case.n) : Norm2(m) = Norm2(k) => (m \in out.lp <=> k \in out.lp)
        /\ \A m \in Freq(case.n) : Norm2(m) <= Norm2(k) /\ k \in out.lp => m \in out.lp

\* high-pass is the exact complement, band-pass the difference of its two low-passes (a 0/1 gain because rh <= rl)
C12_HighpassIsComplement ==
    Designed("hard") => out.hp \cup out.lp = Freq(case.n) /\ out.hp \cap out.lp = {} /\ Zero3 \in out.lp /\ Zero3 \notin out.hp
C12_BandpassIsDifference ==
    Designed("hard") => /\ out.lp2 \subseteq out.lp
                        /\ out.bp \cup out.lp2 = out.lp /\ out.bp \cap out.lp2 = {}
                        /\ out.bp = out.lp \cap HP(case.n, case.rh)
                        /\ Zero3 \notin out.bp

\* soft edge: the classes partition the frequencies, One / Zero are the radial regions of the statement
C12_SoftClasses ==
    Designed("soft") => \A k \in Freq(case.n) :
        LET c == out.cls[k] IN
        /\ ~(One(k, case.r, case.f) /\ Zero(k, case.r, case.f))
        /\ case.f = 0 => c # "mid" /\ (c = "one" <=> HardOne(k, case.r))
        /\ case.f > 0 => /\ c = "one"  <=> (case.r - case.f - 1 >= 0 /\ Norm2(k) <= Sq(case.r - case.f - 1))
                         /\ c = "zero" <=> Norm2(k) >= Sq(case.r + case.f + 1)
        /\ case.r - case.f - 1 < 0 /\ case.f > 0 => c # "one"
        /\ c = "one" => HardOne(k, case.r)                   \* the soft filter passes fully only inside the cutoff
        /\ c = "zero" => ~HardOne(k, case.r)
        \* nestedness in the cutoff and in the width
        /\ Rank(Class(k, case.r + 1, case.f)) >= Rank(c)
        /\ case.f > 0 => (c = "one" => Class(k, case.r, case.f + 1) # "zero") /\ (Class(k, case.r, case.f + 1) = "one" => c = "one")

\* the class depends on the integer radius only, is sign symmetric and does not increase along any ray 0, d, 2d, ...
C12_ClassRadialSymmetricRayMonotone ==
    Designed("soft") => \A k \in Freq(case.n) :
        /\ \A m \in Mirrors(case.n, k) : out.cls[m] = out.cls[k]
        /\ \A m \in Freq(case.n) : Norm2(m) = Norm2(k) => out.cls[m] = out.cls[k]
        /\ k # Zero3 => /\ Prev(k) \in Freq(case.n)
                        /\ Norm2(Prev(k)) < Norm2(k)
                        /\ Rank(out.cls[k]) <= Rank(out.cls[Prev(k)])

\* resolution -> pixels is the nearest integer to edge * px / res, an exact half going to the even neighbour
C12_PixelsIsNearestInteger ==
    Designed("pixels") =>
        LET num == PixNum(case.edge, case.px100)
            p   == out.pixels
        IN  /\ 2 * Abs(num - p * case.res100) <= case.res100
            /\ out.tie <=> 2 * Abs(num - p * case.res100) = case.res100
            /\ ~out.tie => \A z \in {p - 1, p + 1} : Abs(num - z * case.res100) > Abs(num - p * case.res100)
            /\ out.tie => p % 2 = 0
            /\ out.decided <=> (~out.tie \/ Dyadic(case.px100, case.res100))

\* every column of the hard-edged low-pass is the interval the run predicate of the trace specification describes
C12_ColumnsAreIntervals ==
    Designed("hard") =>
        \A k1 \in KRange(case.n[1]), k2 \in KRange(case.n[2]) :
            LET col == {k3 \in KRange(case.n[3]) : <<k1, k2, k3>> \in out.lp}
            IN  IF col = {} THEN ColumnRoom(k1, k2, case.rl) < 0
                ELSE LET lo == CHOOSE x \in col : \A y \in col : x <= y
                         hi == CHOOSE x \in col : \A y \in col : x >= y
                     IN  /\ col = lo .. hi
                         /\ RunIsColumn(lo, hi, k1, k2, case.rl, case.n[3])
                         /\ \A a \in KRange(case.n[3]), b \in KRange(case.n[3]) :
                               RunIsColumn(a, b, k1, k2, case.rl, case.n[3]) => a = lo /\ b = hi

-----------------------------------------------------------------------------
\* emission (frequencies as positions in the unshifted DFT array, C order)
LinSet(n, S) == {LinK(n, k) : k \in S}
EmitTR ==
    \/ EmitMode # "tr"
    \/ CASE case.kind = "hard" ->
              PrintT(ToJson([case |-> case, lp |-> LinSet(case.n, out'.lp), hp |-> LinSet(case.n, out'.hp),
                             lp2 |-> LinSet(case.n, out'.lp2), bp |-> LinSet(case.n, out'.bp)]))
         [] case.kind = "pixels" -> PrintT(ToJson([case |-> case, pixels |-> out'.pixels, tie |-> out'.tie, decided |-> out'.decided,
                                                    inscope |-> out'.inscope]))
         [] OTHER -> TRUE
=============================================================================

--------------------------- MODULE MC_Thickness ---------------------------
(* Model-checking configurations of Thickness.tla.                                              *)
(*  - abstract Greedy model: Src / Tgt are given in the cfg as sets of model values, Cap too.     *)
(*  - geometric inputs (GeoSpec): two small sheets on the lattice, every choice of positions,    *)
(*    normals (straight, slanted, pointing the wrong way), several index layouts ("arbitrary     *)
(*    surface labelling", incl. an unlabelled point), both directions, several max thickness /   *)
(*    max angle / voxel size values and rigid motions.  Only inputs that are GeoClean are used.  *)
EXTENDS Thickness

NoInputs == {}

Lower == { <<x, y, 0>> : x \in 0..2, y \in 0..1 }
Upper == { <<x, y, z>> : x \in 0..1, y \in 0..1, z \in {3, 4} }
LexLess(a, b) == \/ a[1] < b[1]
                 \/ a[1] = b[1] /\ a[2] < b[2]
                 \/ a[1] = b[1] /\ a[2] = b[2] /\ a[3] < b[3]

NLow == { <<0, 0, 1>>, <<1, 0, 3>>, <<0, 0, -1>> }       \* lower sheet: up, slanted up, wrong way
NUp  == { <<0, 0, -1>>, <<0, 1, -3>>, <<1, 0, 2>> }      \* upper sheet: down, slanted down, wrong way

\* the lower sheet has points a = (0,0,0) and b, the upper sheet c < d (and for five-point layouts a third one)
SecondLower == { <<1, 0, 0>>, <<2, 0, 0>>, <<1, 1, 0>> }
UpperPairs == { cd \in Upper \X Upper : LexLess(cd[1], cd[2]) }
WideUpper == { <<x, y, z>> : x \in 0..2, y \in 0..1, z \in {3, 4} }
WideUpperPairs == { cd \in WideUpper \X WideUpper : LexLess(cd[1], cd[2]) }

Pt(p, n, s) == [p |-> p, n |-> n, surf |-> s]

\* layout: which index carries which point (1,2 = lower sheet points a,b; 3,4 = upper sheet points c,d; 5 = extra)
Arrange(lay, five) == [k \in DOMAIN lay |-> five[lay[k]]]

Par(dir, max2, deg, vox, q, tv, lay, extra) ==
    [dir |-> dir, max2 |-> max2, deg |-> deg, vox |-> vox, q |-> q, tv |-> tv, lay |-> lay, extra |-> extra]

\* extra point: [p, n, surf] appended when the layout mentions index 5 (surf 0 = on neither surface)
X0 == Pt(<<1, 0, 2>>, <<0, 0, 1>>, 0)
X1 == Pt(<<2, 1, 0>>, <<0, 1, 3>>, 1)
X2 == Pt(<<3, 0, 4>>, <<0, 0, -1>>, 2)

QuickPars == {
    Par("1to2", <<45, 2>>, 30, <<1, 1>>,   Id,            <<0, 0, 0>>,  <<1, 2, 3, 4>>,    X0),
    Par("1to2", <<27, 2>>, 20, <<27, 20>>, Rx1,           <<5, -3, 2>>, <<3, 1, 4, 2, 5>>, X0),
    Par("2to1", <<45, 2>>, 30, <<1, 2>>,   Mul(Rz1, Rx1), <<-4, 0, 7>>, <<1, 3, 4, 2>>,    X0),
    Par("2to1", <<37, 2>>, 25, <<27, 20>>, Id,            <<0, 0, 0>>,  <<4, 3, 5, 2, 1>>, X2),
    \* maximum thickness exactly 4 voxels at voxel size 1: pairs straight across the z = 4 gap lie exactly on the boundary
    Par("1to2", <<16, 1>>, 30, <<1, 1>>,   Rz1,           <<2, 0, -1>>, <<2, 1, 4, 3>>,    X0) }

ThoroughPars == QuickPars \cup {
    Par("1to2", <<37, 2>>, 25, <<3, 4>>,   Ry1,           <<1, 1, 1>>,  <<4, 2, 5, 1, 3>>, X1),
    Par("1to2", <<45, 2>>, 15, <<27, 20>>, Mul(Rx1, Rx1), <<0, 9, -2>>, <<2, 1, 4, 3>>,    X0),
    Par("1to2", <<61, 2>>, 28, <<5, 1>>,   Inv(Rz1),      <<3, 3, 3>>,  <<5, 4, 3, 2, 1>>, X2),
    Par("2to1", <<27, 2>>, 18, <<1, 1>>,   Mul(Ry1, Rz1), <<-6, 2, 0>>, <<3, 4, 1, 2, 5>>, X1),
    Par("2to1", <<61, 2>>, 30, <<27, 20>>, Rz1,           <<0, 0, 12>>, <<1, 2, 3, 4, 5>>, X0),
    Par("2to1", <<45, 2>>, 22, <<7, 3>>,   Mul(Rx1, Ry1), <<8, -8, 1>>, <<2, 4, 1, 3>>,    X0) }

\* only the normals of the source side enter the result: they are varied, the other side keeps its straight normal
Mk(par, b, cd, n1, n2) ==
    LET one == par.dir = "1to2"
        na == IF one THEN n1 ELSE <<0, 0, 1>>
        nb == IF one THEN n2 ELSE <<1, 0, 3>>
        nc == IF one THEN <<0, 0, -1>> ELSE n1
        nd == IF one THEN <<0, 1, -3>> ELSE n2
    IN  [pts |-> Arrange(par.lay, <<Pt(<<0, 0, 0>>, na, 1), Pt(b, nb, 1), Pt(cd[1], nc, 2), Pt(cd[2], nd, 2), par.extra>>),
         dir |-> par.dir, max2 |-> par.max2, deg |-> par.deg, vox |-> par.vox, q |-> par.q, tv |-> par.tv]

RawInputs(pars, upairs) ==
    UNION { LET NS == IF par.dir = "1to2" THEN NLow ELSE NUp
            IN  { Mk(par, b, cd, n1, n2) : b \in SecondLower, cd \in upairs, n1 \in NS, n2 \in NS } : par \in pars }

\* Tier is a constant of the geometric configuration, so that only the requested input set is ever evaluated
CONSTANT Tier
GeoInputs == CASE Tier = "quick"    -> { i \in RawInputs(QuickPars, UpperPairs) : GeoClean(i) }
               [] Tier = "thorough" -> { i \in RawInputs(ThoroughPars, WideUpperPairs) : GeoClean(i) }
               [] OTHER             -> {}
=============================================================================

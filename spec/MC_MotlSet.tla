----------------------------- MODULE MC_MotlSet -----------------------------
(* Model-checking configurations of MotlSet.tla: small exhaustive scopes and the file-driven simulation scope. *)
EXTENDS MotlSet, IOUtils

R(sid, tomo, obj, score, cls, tag) == [sid |-> sid, tomo |-> tomo, obj |-> obj, score |-> score, cls |-> cls, tag |-> tag]

\* all rows over values 1..2 (class tied to the tomogram to keep the scope small), tag filled in by position
RowSet == { R(s, t, o, c, 3 - t, 0) : s \in 1..2, t \in 1..2, o \in 1..2, c \in 1..2 }
Tagged(T, base) == [i \in DOMAIN T |-> [T[i] EXCEPT !.tag = base + i]]
TablesUpTo(n) == UNION { { Tagged(T, 0) : T \in [1..m -> RowSet] } : m \in 0..n }

\* second operands: empty, repeated id, ids partly outside A, object numbers colliding with A's
BSet == { <<>>,
          <<R(1, 1, 1, 2, 1, 501), R(1, 2, 2, 1, 2, 502)>>,
          <<R(2, 1, 2, 1, 1, 501), R(3, 2, 1, 2, 2, 502), R(2, 2, 1, 2, 1, 503)>> }

Chk(T) == LET S[i \in 0..Len(T)] == IF i = 0 THEN 0
                                     ELSE S[i - 1] * 3 + T[i].sid + 2 * T[i].tomo + 5 * T[i].obj + 7 * T[i].score
          IN  S[Len(T)]

Pairs2 == { <<T, Bt>> : T \in TablesUpTo(2), Bt \in BSet }
Pairs3 == { <<T, Bt>> : T \in TablesUpTo(3), Bt \in BSet }
\* a seed-dependent eighth of the 3-row scope for transition emission
SeedVal == atoi(IOEnv.MC_SEED)
Pairs3Sample == { pr \in Pairs3 : (Chk(pr[1]) + SeedVal) % 8 = 0 }

\* transition emission thinned out deterministically (all transitions are still model-checked)
EmitMod == atoi(IOEnv.MC_EMITMOD)
EmitTRSel == \/ (Chk(A) + 7 * Chk(A') + Chk(B) + Len(A) + SeedVal) % EmitMod # 0
             \/ EmitTR

\* requested values: present, missing (3), several in either order, and the empty request
MCValSeqs == [f \in {"sid", "tomo", "obj", "cls", "score"} |->
                 IF f = "score" THEN { <<1>>, <<2, 1>>, <<3>> } ELSE { <<>>, <<1>>, <<2>>, <<3>>, <<1, 2>>, <<2, 1>>, <<3, 1>> }]
MCSplitFields == {"sid", "tomo", "obj", "cls", "score"}
MCStarts == {1, 4}
MCOrders == { <<"a">>, <<"b">>, <<"a", "b">>, <<"b", "a">>, <<"a", "b", "a2">>, <<"b", "a2", "a">>, <<"b", "a", "b2">>,
              <<"a", "b", "b2", "a2">>, <<"b2", "a", "a2", "b">> }

\* ---- simulation scope: initial pairs handed over by the driver (random tables, 0..MaxRows rows)
FileRows(x) == [i \in DOMAIN x |-> R(x[i][1], x[i][2], x[i][3], x[i][4], x[i][5], x[i][6])]
FileInits == LET recs == ndJsonDeserialize(IOEnv.INIT_FILE)
             IN  { <<FileRows(recs[i].a), FileRows(recs[i].b)>> : i \in DOMAIN recs }
SimValSeqs == [f \in {"sid", "tomo", "obj", "cls", "score"} |->
                 IF f = "sid" THEN { <<97>>, <<2, 1>>, <<0>> }
                 ELSE IF f = "score" THEN { <<1>>, <<2, 3>>, <<41>> }           \* score tokens 1..40; 41 does not occur
                 ELSE { <<1>>, <<2, 3>>, <<3, 1>>, <<9>>, <<0>>, <<1, 0>> }]
=============================================================================

------------------------------- MODULE Chains -------------------------------
(***************************************************************************)
(* C19 - chain tracing (ribana.trace_chains).                              *)
(*                                                                         *)
(* 1. the RESULT PREDICATE ValidTrace: clauses (i) every particle exactly  *)
(*    once, (ii) order numbers 1..k inside every (tomogram, object),       *)
(*    (iii) consecutive members are linked - the distance from the exit    *)
(*    site of the former to the entry site of the latter is in             *)
(*    (min_distance, max_distance] - and that distance is what the former  *)
(*    records, (iv) no chain spans tomograms.  ChainsTrace.tla evaluates   *)
(*    it on recorded runs.                                                 *)
(* 2. a REFERENCE BUILDER (start a chain / extend it along a link) whose   *)
(*    every reachable table satisfies ValidTrace: the predicate is         *)
(*    satisfiable for every link relation and says what it should.         *)
(* 3. the ALGORITHM MODEL of trace_chains for one tomogram over abstract   *)
(*    distance ranks: greedy forward tracing, then connection of the new   *)
(*    chain to the already traced ones through add_chain_suffix /          *)
(*    add_chain_prefix (join at an end, tail cut, head cut, join on both   *)
(*    sides).  It mirrors the table-row bookkeeping of the code (object    *)
(*    number, order number, recorded distance per row, rows in table       *)
(*    order).  TLC checks its final tables against ValidTrace: a search    *)
(*    for design-level counter-examples, which the driver then realises    *)
(*    as point sets and replays into the implementation.                   *)
(*                                                                         *)
(* An output table is a sequence of rows [sid, tomo, obj, ord, rec].       *)
(***************************************************************************)
EXTENDS Integers, Sequences, FiniteSets, TLC, Json

CONSTANTS Repair,       \* the design variant: {"tailcut-order", "fresh-head-id"} = the algorithm as it is in the tree
                        \* (after the repairs 1437bd7 and 00e911b); leaving one out gives the earlier, defective
                        \* design, which TLC must find violating (negative controls of the driver)
          Instances     \* set of problem instances [n |-> number of particles, links |-> sequence of pairs <<i, j>>]:
                        \* links lists the linked pairs (exit of i -> entry of j in range) by strictly increasing distance

VARIABLES inst,         \* the instance
          tr,           \* the traced table (rows in table order)
          done,         \* particles already in the table
          nxt,          \* next start candidate of the main loop
          cc,           \* next fresh object number (class_c)
          err,          \* "" or the exception the code would raise
          log           \* the branches taken (for reading counter-examples and for coverage)
vars == <<inst, tr, done, nxt, cc, err, log>>

RangeOf(seq) == { seq[i] : i \in DOMAIN seq }
MaxOf(S) == CHOOSE m \in S : \A x \in S : x <= m

-----------------------------------------------------------------------------
(* 1. result predicate *)

SameChain(out, i, j) == out[i].tomo = out[j].tomo /\ out[i].obj = out[j].obj
ChainsOf(out) == { <<out[i].tomo, out[i].obj>> : i \in DOMAIN out }
Members(out, c) == { i \in DOMAIN out : out[i].tomo = c[1] /\ out[i].obj = c[2] }
Follows(out, i, j) == SameChain(out, i, j) /\ out[j].ord = out[i].ord + 1

\* (i) every input particle exactly once
C19_EveryParticleOnce(out, Sids) ==
    /\ Len(out) = Cardinality(Sids)
    /\ { out[i].sid : i \in DOMAIN out } = Sids

\* (ii) within each tomogram every object number carries the order numbers 1..k, each once
C19_OrdersConsecutive(out) ==
    \A c \in ChainsOf(out) :
        LET mem == Members(out, c)
        IN  /\ { out[i].ord : i \in mem } = 1..Cardinality(mem)

\* (iii) consecutive members are linked: exit(former) -> entry(latter) in (min_distance, max_distance]
C19_ConsecutiveLinked(out, Link) ==
    \A i, j \in DOMAIN out : Follows(out, i, j) => <<out[i].sid, out[j].sid>> \in Link

\* (iii) ... and that distance is the value recorded for the former
C19_RecordedDistance(out, RecOK(_, _, _)) ==
    \A i, j \in DOMAIN out : Follows(out, i, j) => RecOK(out[i].sid, out[j].sid, out[i].rec)

\* (iv) chains never span tomograms: a row stays in its particle's tomogram (chains are identified by
\* (tomogram, object), links only exist inside a tomogram)
C19_NoChainSpansTomograms(out, TomoOf) ==
    \A i \in DOMAIN out : out[i].sid \in DOMAIN TomoOf => out[i].tomo = TomoOf[out[i].sid]

ValidTrace(out, Sids, TomoOf, Link, RecOK(_, _, _)) ==
    /\ C19_EveryParticleOnce(out, Sids)
    /\ C19_NoChainSpansTomograms(out, TomoOf)
    /\ C19_OrdersConsecutive(out)
    /\ C19_ConsecutiveLinked(out, Link)
    /\ C19_RecordedDistance(out, RecOK)

FailingClause(out, Sids, TomoOf, Link, RecOK(_, _, _)) ==
    IF ~C19_EveryParticleOnce(out, Sids) THEN "C19_EveryParticleOnce"
    ELSE IF ~C19_NoChainSpansTomograms(out, TomoOf) THEN "C19_NoChainSpansTomograms"
    ELSE IF ~C19_OrdersConsecutive(out) THEN "C19_OrdersConsecutive"
    ELSE IF ~C19_ConsecutiveLinked(out, Link) THEN "C19_ConsecutiveLinked"
    ELSE IF ~C19_RecordedDistance(out, RecOK) THEN "C19_RecordedDistance"
    ELSE "none"

\* Diagnosis of a table that breaks (iii): do the members of every chain form a valid chain in ANOTHER order?
\* (the partition into chains and the recorded distances are right, only the order numbers inside a chain are
\* permuted).  Succ(a, b): a records exactly its distance to b and a -> b is a link.
RECURSIVE Walk(_, _, _)
Walk(sf, i, seen) == LET s2 == seen \cup {i}
                         nx == sf[i] \ s2
                     IN  IF nx = {} THEN s2 ELSE Walk(sf, CHOOSE j \in nx : TRUE, s2)

Reorderable(out, Link, RecOK(_, _, _)) ==
    \A c \in ChainsOf(out) :
        LET mem == Members(out, c)
            S(i, j) == i # j /\ <<out[i].sid, out[j].sid>> \in Link /\ RecOK(out[i].sid, out[j].sid, out[i].rec)
            sf == [i \in mem |-> { j \in mem : S(i, j) }]
            heads == { i \in mem : \A j \in mem : i \notin sf[j] }
        IN  /\ \A i \in mem : Cardinality(sf[i]) <= 1
            /\ Cardinality(heads) = 1
            /\ Walk(sf, CHOOSE h \in heads : TRUE, {}) = mem

-----------------------------------------------------------------------------
(* 2 + 3. one tomogram, abstract distances *)

N == inst.n
Parts == 1..inst.n
LinkSet == RangeOf(inst.links)
Rank(i, j) == CHOOSE k \in DOMAIN inst.links : inst.links[k] = <<i, j>>     \* smaller = closer

\* nearest entry site, seen from the exit of p, among the particles in S; 0 when none is in range (get_nn_dist)
NearestFwd(p, S) ==
    LET cs == { j \in S : <<p, j>> \in LinkSet }
    IN  IF cs = {} THEN 0 ELSE CHOOSE j \in cs : \A k \in cs : Rank(p, j) <= Rank(p, k)
\* nearest exit site, seen from the entry of f
NearestBack(f, S) ==
    LET cs == { i \in S : <<i, f>> \in LinkSet }
    IN  IF cs = {} THEN 0 ELSE CHOOSE i \in cs : \A k \in cs : Rank(i, f) <= Rank(k, f)

Row(p, o, k, r) == [p |-> p, obj |-> o, ord |-> k, rec |-> r]
RowIdx(t, p) == CHOOSE k \in DOMAIN t : t[k].p = p
MaxOrd(t, o) == MaxOf({ t[k].ord : k \in { x \in DOMAIN t : t[x].obj = o } })
Count(t, P(_)) == Cardinality({ k \in DOMAIN t : P(t[k]) })
MapRows(t, F(_)) == [k \in DOMAIN t |-> F(t[k])]

\* the main loop's forward tracing from p: each member goes to the nearest not yet used particle in range
RECURSIVE Grow(_, _, _)
Grow(p, used, k) ==
    LET u == used \cup {p}
        q == NearestFwd(p, Parts \ u)
    IN  IF q = 0 THEN << Row(p, 0, k, 0) >>
        ELSE << Row(p, 0, k, Rank(p, q)) >> \o Grow(q, u, k + 1)

\* add_chain_suffix: the new chain ch is appended after particle a of the table (a's exit is the closest to ch's entry)
\* returns [t, ch, changed, how]
Suffix(t, ch, a, cur) ==
    LET ra  == t[RowIdx(t, a)]
        tcl == ra.obj
        oid == ra.ord
        fresh == ch[1].obj
        notLast == MaxOrd(t, tcl) # oid
    IN  IF notLast /\ ra.rec <= cur
        THEN [t |-> t, ch |-> ch, changed |-> FALSE, how |-> "suffix-refused"]
        ELSE
          LET \* tail cut: the rows after a get the fresh object number and are renumbered 1.. IN TABLE ORDER
              t1 == IF notLast
                    THEN LET moved == MapRows(t, LAMBDA r : IF r.obj = tcl /\ r.ord > oid THEN [r EXCEPT !.obj = fresh] ELSE r)
                         IN  [k \in DOMAIN moved |->
                                 IF moved[k].obj = fresh
                                 THEN IF "tailcut-order" \in Repair
                                      THEN [moved[k] EXCEPT !.ord = @ - oid]              \* 1437bd7: keep the chain order
                                      ELSE [moved[k] EXCEPT !.ord = Cardinality({ x \in 1..k : moved[x].obj = fresh })]
                                 ELSE moved[k]]
                    ELSE t
              cmax == MaxOrd(t1, tcl)
              t2 == [t1 EXCEPT ![RowIdx(t1, a)].rec = cur]
              ch2 == MapRows(ch, LAMBDA r : [r EXCEPT !.obj = tcl, !.ord = r.ord + cmax])
          IN  [t |-> t2, ch |-> ch2, changed |-> TRUE, how |-> IF notLast THEN "suffix-tailcut" ELSE "suffix-join"]

\* add_chain_prefix: the new chain ch is put before particle b of the table (b's entry is the closest to ch's exit)
\* cm = <<>> (class_max None) or <<max order of ch, object number freed by the suffix step>>
\* returns [t, ch, how, err]
Prefix(t, ch, b, cur, cm) ==
    LET rb  == t[RowIdx(t, b)]
        ctc == rb.obj
        oid == rb.ord
        curclass == ch[1].obj
        prevRows == { k \in DOMAIN t : t[k].obj = ctc /\ t[k].ord = oid - 1 }
    IN  IF oid # 1 /\ prevRows = {}
        THEN [t |-> t, ch |-> ch, how |-> "prefix-raises", err |-> "IndexError"]
        ELSE LET prev == IF oid = 1 THEN 0 ELSE t[CHOOSE k \in prevRows : \A x \in prevRows : k <= x].rec
             IN  IF oid # 1 /\ prev <= cur
                 THEN [t |-> t, ch |-> ch, how |-> "prefix-refused", err |-> ""]
                 ELSE
                   LET cut == IF oid = 1 THEN 0 ELSE Count(t, LAMBDA r : r.obj = ctc /\ r.ord < oid)
                       \* head cut: the rows before b leave the chain
                       t1 == IF oid = 1 THEN t
                             ELSE MapRows(t, LAMBDA r : IF r.obj = ctc /\ r.ord < oid
                                                       THEN [r EXCEPT !.obj = IF cm = <<>> THEN curclass ELSE -1] ELSE r)
                   IN  IF cm = <<>>
                       THEN LET chmax == MaxOf({ ch[k].ord : k \in DOMAIN ch })
                                t2 == MapRows(t1, LAMBDA r : IF r.obj = ctc THEN [r EXCEPT !.ord = r.ord + chmax - cut] ELSE r)
                                ch2 == MapRows(ch, LAMBDA r : [r EXCEPT !.obj = ctc])
                            IN  [t |-> t2, ch |-> [ch2 EXCEPT ![Len(ch2)].rec = cur],
                                 how |-> IF oid = 1 THEN "prefix-join" ELSE "prefix-headcut", err |-> ""]
                       ELSE LET t2 == MapRows(t1, LAMBDA r : IF r.obj = ctc
                                                            THEN [r EXCEPT !.ord = r.ord + cm[1] - cut, !.obj = curclass] ELSE r)
                                t3 == IF oid = 1 THEN t2
                                      ELSE MapRows(t2, LAMBDA r : IF r.obj = -1 THEN [r EXCEPT !.obj = cm[2]] ELSE r)
                            IN  [t |-> t3, ch |-> [ch EXCEPT ![Len(ch)].rec = cur],
                                 how |-> IF oid = 1 THEN "both-join" ELSE "both-headcut", err |-> ""]

\* one iteration of the main loop that starts a chain at particle i
StartChain(i) ==
    LET grown == Grow(i, done, 1)
        ch0 == MapRows(grown, LAMBDA r : [r EXCEPT !.obj = cc])
        members == { ch0[k].p : k \in DOMAIN ch0 }
        first == ch0[1].p
        last == ch0[Len(ch0)].p
    IN  IF tr = <<>>
        THEN [t |-> ch0, members |-> members, how |-> <<"first-chain">>, err |-> "", ccnext |-> cc + 1]
        ELSE
          LET nm0 == NearestFwd(last, done)
              fi0 == NearestBack(first, done)
              fd == IF fi0 = 0 THEN 0 ELSE Rank(fi0, first)
              nd == IF nm0 = 0 THEN 0 ELSE Rank(last, nm0)
              same == \/ (fi0 = nm0 /\ fi0 # 0 /\ Len(ch0) = 1)
                      \/ (~(fi0 = nm0 /\ fi0 # 0 /\ Len(ch0) = 1) /\ fi0 # 0 /\ nm0 # 0
                            /\ tr[RowIdx(tr, fi0)].obj = tr[RowIdx(tr, nm0)].obj)
              fi == IF same /\ ~(fd <= nd) THEN 0 ELSE fi0
              nm == IF same /\ fd <= nd THEN 0 ELSE nm0
              s == IF fi # 0 THEN Suffix(tr, ch0, fi, fd)
                   ELSE [t |-> tr, ch |-> ch0, changed |-> FALSE, how |-> "no-suffix"]
              \* earlier design: the head cut of a two-sided join reuses the chain's fresh number cc (already given to a
              \* cut tail); "fresh-head-id" (00e911b): it gets a number of its own, cc + 1
              extra == nm # 0 /\ s.changed /\ "fresh-head-id" \in Repair
              cm == IF s.changed THEN << MaxOf({ s.ch[k].ord : k \in DOMAIN s.ch }), IF extra THEN cc + 1 ELSE cc >> ELSE <<>>
              p == IF nm # 0 THEN Prefix(s.t, s.ch, nm, nd, cm)
                   ELSE [t |-> s.t, ch |-> s.ch, how |-> "no-prefix", err |-> ""]
              \* which branch of the dispatch this chain took (coverage of the replayed point sets is asked per family)
              disp == IF fi0 = 0 /\ nm0 = 0 THEN "no-neighbour"
                      ELSE IF nm0 = 0 THEN "suffix-only"
                      ELSE IF fi0 = 0 THEN "prefix-only"
                      ELSE IF fi0 = nm0
                           THEN (IF Len(ch0) = 1 THEN "single-same-target" ELSE "multi-same-target")
                                \o (IF MaxOrd(tr, tr[RowIdx(tr, fi0)].obj) = 1 THEN "+orphan" ELSE "")   \* target is a chain of one
                      ELSE IF same THEN "same-chain"
                      ELSE "two-sided"
          IN  [t |-> p.t \o p.ch, members |-> members, how |-> <<disp, s.how, p.how>>, err |-> p.err,
               ccnext |-> IF extra THEN cc + 2 ELSE cc + 1]

AInit == /\ inst \in Instances
         /\ tr = <<>>
         /\ done = {}
         /\ nxt = 1
         /\ cc = 1
         /\ err = ""
         /\ log = <<>>

ANext == /\ err = ""
         /\ nxt <= N
         /\ IF nxt \in done
            THEN /\ nxt' = nxt + 1
                 /\ UNCHANGED <<inst, tr, done, cc, err, log>>
            ELSE LET r == StartChain(nxt)
                 IN  /\ tr' = r.t
                     /\ done' = done \cup r.members
                     /\ cc' = r.ccnext
                     /\ err' = r.err
                     /\ log' = Append(log, r.how)
                     /\ nxt' = nxt + 1
                     /\ UNCHANGED inst

AlgoSpec == AInit /\ [][ANext]_vars

ADone == nxt > N \/ err # ""

\* the table as an output in the predicate's vocabulary (one tomogram; recorded value = rank of the link)
OutOf(t) == [k \in DOMAIN t |-> [sid |-> t[k].p, tomo |-> 1, obj |-> t[k].obj, ord |-> t[k].ord, rec |-> t[k].rec]]
TomoOne == [p \in Parts |-> 1]
RecIsRank(a, b, r) == <<a, b>> \in LinkSet /\ r = Rank(a, b)

\* the property, asked of the algorithm model.  With both repairs TLC finds no counter-example in the scopes the driver
\* explores; without "tailcut-order" clause (iii) fails (a cut tail renumbered in table order), without "fresh-head-id"
\* clause (ii) fails (tail piece and head piece of a two-sided join share an object number) - six particles suffice
C19_AlgoValid == ADone => (err = "" /\ ValidTrace(OutOf(tr), Parts, TomoOne, LinkSet, RecIsRank))
\* the same after every iteration, for the particles traced so far
C19_AlgoStepValid == err = "" => ValidTrace(OutOf(tr), done, TomoOne, LinkSet, RecIsRank)
C19_AlgoNoException == err = ""

AlgoClause == IF err # "" THEN "call_raises"
              ELSE FailingClause(OutOf(tr), Parts, TomoOne, LinkSet, RecIsRank)

\* JSON for the driver at the end of a run: the instance, the model's table, the verdict of the predicate on it
AlgoRecord == [n |-> N, links |-> inst.links,
               table |-> [k \in DOMAIN tr |-> <<tr[k].p, tr[k].obj, tr[k].ord, tr[k].rec>>],
               how |-> log, err |-> err, clause |-> AlgoClause,
               reorderable |-> IF AlgoClause \in {"C19_ConsecutiveLinked", "C19_RecordedDistance"}
                               THEN Reorderable(OutOf(tr), LinkSet, RecIsRank) ELSE FALSE]
EmitAlgo == (~ADone) \/ PrintT(<<"ALGO", ToJson(AlgoRecord)>>)
\* only the runs whose final table breaks the predicate (searches over large instance families)
EmitAlgoBad == (~ADone) \/ AlgoClause = "none" \/ PrintT(<<"ALGO", ToJson(AlgoRecord)>>)
\* ... plus the runs that go through one of the rarer dispatch branches (inputs for the branch-coverage replays)
RareDispatch == {"single-same-target", "multi-same-target", "single-same-target+orphan", "multi-same-target+orphan",
                 "same-chain", "two-sided"}
EmitAlgoCover == (~ADone) \/ (AlgoClause = "none" /\ \A k \in DOMAIN log : log[k][1] \notin RareDispatch)
                          \/ PrintT(<<"ALGO", ToJson(AlgoRecord)>>)

-----------------------------------------------------------------------------
(* 2. reference builder: the same variables, no algorithmic choices - start a chain or extend the last one along
   any link to a fresh particle.  Every table it can reach is a valid trace of the particles placed so far. *)

RNext == /\ done # Parts
         /\ \/ \E p \in Parts \ done :                                   \* start a new chain
                  /\ tr' = Append(tr, Row(p, cc, 1, 0))
                  /\ done' = done \cup {p}
                  /\ cc' = cc + 1
            \/ /\ tr # <<>>
               /\ \E p \in Parts \ done :                                \* extend the chain of the last row
                    LET lastRow == tr[Len(tr)]
                    IN  /\ <<lastRow.p, p>> \in LinkSet
                        /\ tr' = Append([tr EXCEPT ![Len(tr)].rec = Rank(lastRow.p, p)],
                                        Row(p, lastRow.obj, lastRow.ord + 1, 0))
                        /\ done' = done \cup {p}
                        /\ cc' = cc
         /\ UNCHANGED <<inst, nxt, err, log>>

RefSpec == AInit /\ [][RNext]_vars
C19_RefValid == ValidTrace(OutOf(tr), done, TomoOne, LinkSet, RecIsRank)
=============================================================================

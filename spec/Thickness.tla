----------------------------- MODULE Thickness -----------------------------
(***************************************************************************)
(* C20 - membrane thickness pairs (memthick.measure_thickness_cpu and the   *)
(* numba candidate kernel find_matches_parallel).                          *)
(*                                                                         *)
(* 1. the RESULT PREDICATE  ValidPairs(M, Adm, Closer)  of the property:    *)
(*    one-to-one, every pair admissible, maximal, no closer free target.   *)
(*    It is what ThicknessTrace.tla evaluates on recorded runs.            *)
(* 2. the ALGORITHM MODEL  Greedy: pairs are visited in strictly           *)
(*    increasing distance and taken when both ends are free.  The order    *)
(*    is chosen nondeterministically (the next pair is any remaining one), *)
(*    so TLC explores every admissibility relation and every strict        *)
(*    distance order on Src x Tgt and checks  Done => ValidPairs.          *)
(*    Cap models max_matches_per_point: when it binds (a source has more   *)
(*    than Cap candidates) the guarantee is lost - TLC exhibits it - which *)
(*    is why the property quantifies over "fewer than 25 candidates".      *)
(* 3. the GEOMETRIC SEMANTICS on the integer lattice: points, integer      *)
(*    direction normals, surface labels, direction flag, max thickness^2   *)
(*    as a rational, max_angle in whole degrees through the table          *)
(*    Tan2Micro = floor(10^6 tan^2) (TANGENT criterion: lateral/proj <     *)
(*    tan(max_angle)).  GeoSpec runs the same Greedy machine with the      *)
(*    order forced by the squared distances; its final states are emitted  *)
(*    as JSON and replayed into the implementation (L2).  Laws: rigid      *)
(*    motion (cube group + lattice translation) and direction swap.        *)
(*                                                                         *)
(* A pair is a tuple whose first two components are <<source, target>>;    *)
(* further components (a distance rank in the trace spec) are ignored by   *)
(* the predicate except through Closer.                                    *)
(***************************************************************************)
EXTENDS Integers, Sequences, FiniteSets, TLC, Json, Cube

CONSTANTS Src,      \* source point ids of the algorithm model
          Tgt,      \* target point ids
          Cap,      \* max_matches_per_point of the algorithm model
          Inputs    \* geometric inputs offered to GeoSpec ({} for the abstract model)

VARIABLES adm,      \* the admissibility relation
          cand,     \* the candidates that survive the per-source cap
          ord,      \* pairs visited so far, in visiting (= distance) order
          M,        \* pairs taken so far
          inp       \* the geometric input (<<>> in the abstract model)
vars == <<adm, cand, ord, M, inp>>

Abs(n) == IF n < 0 THEN -n ELSE n
RangeOf(seq) == { seq[i] : i \in DOMAIN seq }

-----------------------------------------------------------------------------
(* 1. result predicate *)

SrcOf(P) == { m[1] : m \in P }
TgtOf(P) == { m[2] : m \in P }

\* each source is paired with at most one target and no target is used twice
C20_OneToOne(P) == \A a, b \in P : a # b => (a[1] # b[1] /\ a[2] # b[2])

\* every pair is admissible: target surface, ahead of the source, within range and cone
C20_Admissible(P, Adm) == P \subseteq Adm

\* maximal: no admissible pair of two unmatched points is left over
C20_Maximal(P, Adm) ==
    LET ms == SrcOf(P)  mt == TgtOf(P)
    IN  \A e \in Adm : e[1] \in ms \/ e[2] \in mt

\* no matched source has a closer admissible unmatched target
C20_NoCloserFree(P, Adm, Closer(_, _)) ==
    LET ms == SrcOf(P)  mt == TgtOf(P)
    IN  \A e \in Adm : (e[1] \in ms /\ e[2] \notin mt) =>
            \A m \in P : m[1] = e[1] => ~Closer(e, m)

ValidPairs(P, Adm, Closer(_, _)) ==
    /\ C20_OneToOne(P)
    /\ C20_Admissible(P, Adm)
    /\ C20_Maximal(P, Adm)
    /\ C20_NoCloserFree(P, Adm, Closer)

\* the first clause of ValidPairs that P breaks, or "none"
FailingClause(P, Adm, Closer(_, _)) ==
    IF ~C20_OneToOne(P) THEN "C20_OneToOne"
    ELSE IF ~C20_Admissible(P, Adm) THEN "C20_Admissible"
    ELSE IF ~C20_Maximal(P, Adm) THEN "C20_Maximal"
    ELSE IF ~C20_NoCloserFree(P, Adm, Closer) THEN "C20_NoCloserFree"
    ELSE "none"

-----------------------------------------------------------------------------
(* 2. algorithm model *)

Row(R, s) == { e \in R : e[1] = s }
MinOf(a, b) == IF a < b THEN a ELSE b

\* the per-source cap keeps an arbitrary Cap-subset of each row (the KD-tree order is not specified)
CapChoices(a) == { c \in SUBSET a :
                     \A s \in Src : Cardinality(Row(c, s)) = MinOf(Cap, Cardinality(Row(a, s))) }

Take(P, e) == e[1] \notin SrcOf(P) /\ e[2] \notin TgtOf(P)

\* the greedy assignment as a function of the visiting order
RECURSIVE GreedySeq(_, _)
GreedySeq(seq, cnd) ==
    IF seq = <<>> THEN {}
    ELSE LET P == GreedySeq(SubSeq(seq, 1, Len(seq) - 1), cnd)
             e == seq[Len(seq)]
         IN  IF e \in cnd /\ Take(P, e) THEN P \cup {e} ELSE P

GInit == /\ adm \in SUBSET (Src \X Tgt)
         /\ cand \in CapChoices(adm)
         /\ ord = <<>>
         /\ M = {}
         /\ inp = <<>>

Visit(e) == /\ ord' = Append(ord, e)
            /\ M' = IF e \in cand /\ Take(M, e) THEN M \cup {e} ELSE M
            /\ UNCHANGED <<adm, cand, inp>>

\* "sort by distance": the next pair is ANY remaining one - all strict distance orders are explored
GStep == \E e \in adm \ RangeOf(ord) : Visit(e)

GDone == RangeOf(ord) = adm

GreedySpec == GInit /\ [][GStep]_vars

Pos(e) == CHOOSE i \in DOMAIN ord : ord[i] = e
CloserOrd(e, m) == Pos(e) < Pos(m)

TypeOK == /\ adm \subseteq (IF inp = <<>> THEN Src \X Tgt ELSE (DOMAIN inp.pts) \X (DOMAIN inp.pts))
          /\ cand \subseteq adm
          /\ RangeOf(ord) \subseteq adm
          /\ M \subseteq cand

\* the property's guarantee for the finished run (needs cand = adm, i.e. the cap does not bind)
C20_GreedyValid == GDone => ValidPairs(M, adm, CloserOrd)

\* ... and the inductive form: at every moment the pairs taken are a valid answer for the candidates visited so far
C20_GreedyPrefixValid == ValidPairs(M, RangeOf(ord) \cap cand, CloserOrd)

\* the result is a function of the admissible set and the distance order (nothing else - in particular not of
\* coordinates: whatever leaves Adm and the order unchanged, e.g. a rigid motion, leaves the pairing unchanged)
C20_GreedyIsFunctionOfOrder == M = GreedySeq(ord, cand)

CapDoesNotBind == cand = adm

-----------------------------------------------------------------------------
(* 3. geometric semantics on the integer lattice *)

\* floor(10^6 * tan^2(d degrees)), d = 1..30 (the property's range of max_angle)
Tan2Micro ==
    (1 :> 304) @@ (2 :> 1219) @@ (3 :> 2746) @@ (4 :> 4889) @@ (5 :> 7654) @@ (6 :> 11046) @@ (7 :> 15076) @@
    (8 :> 19751) @@ (9 :> 25085) @@ (10 :> 31091) @@ (11 :> 37783) @@ (12 :> 45180) @@ (13 :> 53300) @@
    (14 :> 62164) @@ (15 :> 71796) @@ (16 :> 82222) @@ (17 :> 93471) @@ (18 :> 105572) @@ (19 :> 118561) @@
    (20 :> 132474) @@ (21 :> 147351) @@ (22 :> 163237) @@ (23 :> 180178) @@ (24 :> 198228) @@ (25 :> 217442) @@
    (26 :> 237883) @@ (27 :> 259616) @@ (28 :> 282714) @@ (29 :> 307258) @@ (30 :> 333333)

Vec(a, b) == [i \in 1..3 |-> b[i] - a[i]]
N2(v) == Dot(v, v)

\* An input i = [pts  : sequence of [p : lattice point, n : integer direction of the normal, surf : 0 | 1 | 2],
\*               dir  : "1to2" | "2to1",   max2 : <<num, den>>  (max thickness in voxels, squared),
\*               deg  : max_angle in whole degrees,   vox : <<num, den>> voxel size,
\*               q    : cube rotation, tv : lattice translation  (the rigid motion applied to pts before the call)]
SrcLabel(dir) == IF dir = "1to2" THEN 1 ELSE 2
TgtLabel(dir) == IF dir = "1to2" THEN 2 ELSE 1

MovePts(pts, q, tv) == [k \in DOMAIN pts |->
    [p |-> [j \in 1..3 |-> Apply(q, pts[k].p)[j] + tv[j]], n |-> Apply(q, pts[k].n), surf |-> pts[k].surf]]

World(i) == MovePts(i.pts, i.q, i.tv)

SwapLabels(pts) == [k \in DOMAIN pts |->
    [pts[k] EXCEPT !.surf = IF @ = 1 THEN 2 ELSE IF @ = 2 THEN 1 ELSE 0]]

D2(pts, e) == N2(Vec(pts[e[1]].p, pts[e[2]].p))
Proj(pts, e) == Dot(Vec(pts[e[1]].p, pts[e[2]].p), pts[e[1]].n)          \* times |n|

Forward(pts, e) == Proj(pts, e) > 0
InRange(pts, e, max2) == D2(pts, e) * max2[2] <= max2[1]
\* lateral^2 < tan^2 * proj^2   with lateral^2 = |d|^2 - pr^2/|n|^2, proj^2 = pr^2/|n|^2
ConeLhs(pts, e) == (D2(pts, e) * N2(pts[e[1]].n) - Proj(pts, e) * Proj(pts, e)) * 1000000
ConeRhs(pts, e, deg) == Tan2Micro[deg] * Proj(pts, e) * Proj(pts, e)
InCone(pts, e, deg) == ConeLhs(pts, e) < ConeRhs(pts, e, deg)

AdmGeo(pts, dir, max2, deg) ==
    { e \in (DOMAIN pts) \X (DOMAIN pts) :
        /\ pts[e[1]].surf = SrcLabel(dir) /\ pts[e[2]].surf = TgtLabel(dir)
        /\ Forward(pts, e) /\ InRange(pts, e, max2) /\ InCone(pts, e, deg) }

AdmOf(i) == AdmGeo(World(i), i.dir, i.max2, i.deg)

\* inputs on which the property is unambiguous: no coincident points, no pair on the boundary of the range or the
\* cone (the table is a floor: stay 2e-6 away; the range boundary itself is allowed where ExactMaxRepresentable),
\* no two admissible pairs that share an end at the same distance
\* "does not exceed the maximum thickness": a pair at EXACTLY the maximum is admissible.  That boundary is only put to the
\* code where the floating-point values are exact too: voxel size 1 and a maximum whose square root is an integer.
ExactMaxRepresentable(i) == i.vox = <<1, 1>> /\ i.max2[2] = 1 /\ \E r \in 1..40 : r * r = i.max2[1]

GeoClean(i) ==
    LET pts == i.pts
        A == AdmGeo(pts, i.dir, i.max2, i.deg)
    IN  /\ \A a, b \in DOMAIN pts : a # b => pts[a].p # pts[b].p
        /\ \A e \in (DOMAIN pts) \X (DOMAIN pts) :
              e[1] # e[2] =>
                /\ (D2(pts, e) * i.max2[2] # i.max2[1] \/ ExactMaxRepresentable(i))
                /\ Abs(ConeLhs(pts, e) - ConeRhs(pts, e, i.deg)) > 2 * Proj(pts, e) * Proj(pts, e)
        /\ \A e, f \in A : (e # f /\ (e[1] = f[1] \/ e[2] = f[2])) => D2(pts, e) # D2(pts, f)

\* the strict distance order of the geometry (the tie-break only orders pairs that do not interact)
BeforeGeo(pts, e, f) == \/ D2(pts, e) < D2(pts, f)
                        \/ D2(pts, e) = D2(pts, f) /\ (e[1] < f[1] \/ (e[1] = f[1] /\ e[2] < f[2]))

GeoInit == /\ inp \in Inputs
           /\ adm = AdmOf(inp)
           /\ cand = adm
           /\ ord = <<>>
           /\ M = {}

\* the Greedy machine with the visiting order forced by the geometry: a refinement of GStep
GeoStep == \E e \in adm \ RangeOf(ord) :
              /\ \A f \in adm \ RangeOf(ord) : f = e \/ BeforeGeo(World(inp), e, f)
              /\ Visit(e)

GeoSpec == GeoInit /\ [][GeoStep]_vars

\* rigid motion changes neither the admissible set nor any distance, hence (C20_GreedyIsFunctionOfOrder) not the pairing
C20_GeoMotionInvariant ==
    inp # <<>> => /\ adm = AdmGeo(inp.pts, inp.dir, inp.max2, inp.deg)
                  /\ \A e \in adm : D2(World(inp), e) = D2(inp.pts, e)

\* direction "2to1" = the surfaces swap their roles
C20_GeoDirectionSwaps ==
    inp # <<>> => adm = AdmGeo(SwapLabels(World(inp)), IF inp.dir = "1to2" THEN "2to1" ELSE "1to2", inp.max2, inp.deg)

\* every taken pair goes from the source surface of the direction to the other one
C20_GeoRoles ==
    inp # <<>> => \A m \in M : /\ World(inp)[m[1]].surf = SrcLabel(inp.dir)
                               /\ World(inp)[m[2]].surf = TgtLabel(inp.dir)

CloserGeo(e, m) == D2(World(inp), e) < D2(World(inp), m)
C20_GeoValid == (inp # <<>> /\ GDone) => ValidPairs(M, adm, CloserGeo)

\* JSON handed to the driver at the final state: the moved points, the call's parameters, and the expected result:
\* the pairs with their squared distance in voxels^2 (thickness = sqrt(d2) * vox)
GeoRecord ==
    LET w == World(inp)
    IN  [pts |-> [k \in DOMAIN w |-> [p |-> w[k].p, n |-> w[k].n, surf |-> w[k].surf]],
         dir |-> inp.dir, max2 |-> inp.max2, deg |-> inp.deg, vox |-> inp.vox,
         pairs |-> { <<m[1], m[2], D2(w, m)>> : m \in M },
         nadm |-> Cardinality(adm)]

EmitGeo == (~GDone) \/ PrintT(<<"GEO", ToJson(GeoRecord)>>)
=============================================================================

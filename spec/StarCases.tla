----------------------------- MODULE StarCases -----------------------------
(***************************************************************************)
(* C02, reader side on documents and layouts drawn by the driver           *)
(* (seeded): the case file holds abstract documents (blocks of tokens) and *)
(* layout records; the text is rendered and parsed here, by the same       *)
(* actions and under the same invariants as the exhaustive small scope of  *)
(* MC_Star.  types[b][k] is the kind ("num" / "text" / "none") the         *)
(* generator intended for column k - an independent classification the     *)
(* specification's IsNumeric must agree with.                              *)
(***************************************************************************)
EXTENDS MC_Star, IOUtils

Cases == ndJsonDeserialize(IOEnv.CASE_FILE)

CaseInit == /\ cid \in 1..Len(Cases)
            /\ doc = Cases[cid].doc /\ lay = Cases[cid].lay /\ mode = Cases[cid].mode
            /\ Start

C02_DeclaredTypes ==
    pc \in {"read", "written"} =>
        \A b \in 1..Len(doc) : \A k \in 1..Len(doc[b].labels) : Typed(doc)[b].types[k] = Cases[cid].types[b][k]
=============================================================================

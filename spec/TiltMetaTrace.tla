-------------------------- MODULE TiltMetaTrace --------------------------
(***************************************************************************)
(* C17, code -> spec.  Three kinds of recorded traces, many per TLC run:   *)
(*                                                                         *)
(* "mdoc"   doc   : the abstract document the driver rendered to text      *)
(*          steps : per call on the live Mdoc object / the module helpers  *)
(*                  [op, post (object projected to values), disk (the      *)
(*                  written file parsed by the driver's own splitter)]     *)
(*          TLC recomputes every step with Apply of TiltMeta.tla.          *)
(* "loader" what = tlt | dose | mdocdose | defocus: the numbers put into   *)
(*          the file (scaled integers) and the numbers returned            *)
(* "wedge"  tomos (id, tilts, 2 x mean defocus, dose, dimensions,          *)
(*          z-shift), consts, and the rows of the returned tables /        *)
(*          written files of create_wedge_list_sg(_batch),                 *)
(*          create_wedge_list_em_batch, wedge_list_sg_to_em                *)
(* The same records are used for call SEQUENCES on one set of files and    *)
(* argument objects in one process: every call, and every earlier result   *)
(* re-inspected after the later calls, is one trace judged against the     *)
(* file contents.                                                          *)
(***************************************************************************)
EXTENDS Integers, Sequences, FiniteSets, TLC, Json, IOUtils

TM == INSTANCE TiltMeta WITH Docs <- {}, MaxDepth <- 0, EmitMode <- "none",
                             m <- <<>>, disk <- <<>>, op <- <<>>, d <- 0, hist <- <<>>

Traces == ndJsonDeserialize(IOEnv.TRACE_FILE)

VARIABLES tid, l, ok, clause, st
vars == <<tid, l, ok, clause, st>>

T == Traces[tid]
RangeOf(s) == { s[i] : i \in DOMAIN s }

-----------------------------------------------------------------------------
(* mdoc traces *)

\* index sets arrive as JSON arrays
OpOf(o) == CASE o.name = "remove" -> [o EXCEPT !.idx = RangeOf(@)]
             [] o.name = "fn_remove" -> [o EXCEPT !.idx = RangeOf(@)]
             [] o.name = "fn_remove_keep" -> [o EXCEPT !.idx = RangeOf(@)]
             [] o.name = "keep" -> [o EXCEPT !.labels = RangeOf(@)]
             [] OTHER -> o

ClauseOfOp(name, diskWrong) ==
    CASE name = "sort" -> "C17_SortOnlyReorders"
      [] name = "remove" -> "C17_RemoveOnlyFlags"
      [] name = "write" -> IF diskWrong THEN "C17_WriteOmitsExactlyRemoved" ELSE "C17_MdocRoundTrip"
      [] name = "reload" -> "C17_MdocRoundTrip"
      [] name = "fn_remove" -> IF diskWrong THEN "C17_WriteOmitsExactlyRemoved" ELSE "C17_RemoveOnlyFlags"
      [] name = "fn_sort" -> "C17_SortOnlyReorders"
      [] OTHER -> "C17_RemoveOnlyFlags"

MdocStep(s, e) ==
    LET o == OpOf(e.op)
    IN  IF ~TM!Enabled(s.m, s.disk, o) THEN [st |-> s, c |-> "TRACE_INCONSISTENT"]
        ELSE LET r == TM!Apply(s.m, s.disk, o)
                 objOK == e.post = TM!MdocJ(r.m)
                 diskOK == e.disk = r.disk
             IN  [st |-> r, c |-> IF objOK /\ diskOK THEN "none" ELSE ClauseOfOp(o.name, ~diskOK)]

-----------------------------------------------------------------------------
(* loader and wedge traces: one event each *)

LoaderClause ==
    CASE T.what = "tlt"      -> IF T.got = TM!TltLoad(T.vals, T.sort) THEN "none" ELSE "C17_LoadersIdentity"
      [] T.what = "dose"     -> IF T.got = TM!DoseLoad(T.vals) THEN "none" ELSE "C17_LoadersIdentity"
      [] T.what = "mdocdose" -> IF T.got = TM!MdocDose(T.imgs, T.sort) THEN "none" ELSE "C17_MdocDose"
      [] T.what = "defocus"  -> IF T.got = TM!Defocus(T.rows) THEN "none" ELSE "C17_DefocusConversion"

WedgeClause ==
    CASE T.what = "sg"    -> IF T.got = TM!WedgeSg(T.tomos, T.consts) THEN "none" ELSE "C17_WedgeRows"
      [] T.what = "em"    -> IF T.got = TM!WedgeEm(T.tomos) THEN "none" ELSE "C17_WedgeEmMinMax"
      [] T.what = "sg2em" -> IF T.got = TM!SgToEm(TM!WedgeSg(T.tomos, T.consts)) THEN "none" ELSE "C17_SgToEm"
      \* tilt angles and dose both taken from one mdoc (images in acquisition order): the i-th ascending tilt is
      \* paired with the dose of that image
      [] T.what = "sg_mdoc" ->
            LET t == T.tomos[1]
                tomo == [id |-> t.id, tilts |-> [k \in DOMAIN T.imgs |-> T.imgs[k].tilt], ctf |-> t.ctf,
                         dose |-> TM!MdocDose(T.imgs, TRUE), dim |-> t.dim, zshift |-> t.zshift]
            IN  IF T.got = TM!WedgeSg(<<tomo>>, T.consts) THEN "none" ELSE "C17_WedgeRows"

-----------------------------------------------------------------------------
NSteps == IF T.kind = "mdoc" THEN Len(T.steps) ELSE 1

TraceInit == /\ tid \in 1..Len(Traces)
             /\ l = 1
             /\ ok = TRUE
             /\ clause = "none"
             /\ st = IF Traces[tid].kind = "mdoc" THEN [m |-> TM!Read(Traces[tid].doc), disk |-> Traces[tid].doc] ELSE <<>>

TraceNext == /\ ok
             /\ l <= NSteps
             /\ IF T.kind = "mdoc"
                THEN LET r == MdocStep(st, T.steps[l]) IN st' = r.st /\ clause' = r.c /\ ok' = (r.c = "none")
                ELSE LET c == IF T.kind = "loader" THEN LoaderClause ELSE WedgeClause
                     IN  st' = st /\ clause' = c /\ ok' = (c = "none")
             /\ l' = l + 1
             /\ UNCHANGED tid

TraceSpec == TraceInit /\ [][TraceNext]_vars

Report == \/ (ok /\ l <= NSteps)
          \/ PrintT(<<"VERDICT", ToJson([tid |-> tid, ok |-> ok, clause |-> clause, step |-> l - 1])>>)
=============================================================================

----------------------------- MODULE PoseTrace -----------------------------
(***************************************************************************)
(* C05, code -> spec.  Real-valued histories executed on live Motl objects  *)
(* are recorded by the driver; one record per public call.  For each call   *)
(* the projection logs, per particle, the integer-scaled residual of the    *)
(* identity that Pose.tla's action of the same name defines                 *)
(*   (update: Complete' = Complete;  scale: Complete' = f Complete;         *)
(*    shift: Complete' = Complete + R v;  rotate: R' = R Q;                 *)
(*    flip: z' = dim+1-z, R' = Mz R Mz)                                     *)
(* position residuals in 1e-7 (relative to max(1,|c|)), rotation residuals  *)
(* in 1e-7 of the matrix max-norm.  Many traces are validated in one run:   *)
(* the initial states are the trace ids.                                    *)
(***************************************************************************)
EXTENDS Integers, Sequences, TLC, Json, IOUtils

CONSTANTS PosTol, RotTol

Traces == ndJsonDeserialize(IOEnv.TRACE_FILE)

VARIABLES tid, l, ok, clause
vars == <<tid, l, ok, clause>>

Events == Traces[tid].ev
N == Traces[tid].n

AllLeq(seq, b) == \A i \in DOMAIN seq : seq[i] <= b

ClauseOf(name) == CASE name = "update" -> "C05_UpdateKeepsComplete"
                    [] name = "scale"  -> "C05_ScaleMultiplies"
                    [] name = "shift"  -> "C05_ShiftMovesByOwnOrientation"
                    [] name = "rotate" -> "C05_RotateComposes"
                    [] name = "flip"   -> "C05_FlipMirrors"

\* the name of the first clause the event breaks, or "none"
Failing(e) ==
    IF ~e.rows_ok \/ Len(e.pos) # N \/ Len(e.rot) # N THEN "C05_NothingAppearsOrVanishes"
    \* the complete positions read per tomogram (get_coordinates(t)) are those read for the whole list
    ELSE IF e.pertomo > PosTol THEN "C05_CompleteIsXPlusShift"
    ELSE IF ~AllLeq(e.pos, PosTol) THEN ClauseOf(e.name)
    ELSE IF ~AllLeq(e.rot, RotTol) THEN ClauseOf(e.name)
    ELSE IF e.name = "update" /\ (~e.integral \/ e.maxshift > 500000 + 1) THEN "C05_UpdateKeepsComplete"
    ELSE "none"

TraceInit == /\ tid \in 1..Len(Traces)
             /\ l = 1
             /\ ok = TRUE
             /\ clause = "none"

TraceNext == /\ ok
             /\ l <= Len(Events)
             /\ LET c == Failing(Events[l]) IN ok' = (c = "none") /\ clause' = c
             /\ l' = l + 1
             /\ UNCHANGED tid

TraceSpec == TraceInit /\ [][TraceNext]_vars

Report == \/ (ok /\ l <= Len(Events))
          \/ PrintT(<<"VERDICT", ToJson([tid |-> tid, ok |-> ok, clause |-> clause, step |-> l - 1])>>)
=============================================================================

------------------------------ MODULE MotlSet ------------------------------
(***************************************************************************)
(* C08 - histories of set operations on two particle-table registers.      *)
(*                                                                         *)
(* A is the table the operations act on, B the second operand of           *)
(* intersection and of the two merges.  Every public cryoCAT call the      *)
(* property names is one action (functions in MotlSetOps.tla); Fork makes  *)
(* B a re-tagged copy of A (same key columns, fresh other fields) so that  *)
(* later intersections / merges meet repeated ids.  The clauses C08_* are  *)
(* action properties stated with the predicates of MotlSetOps section 2.   *)
(***************************************************************************)
EXTENDS MotlSetOps, Json

CONSTANTS
    InitPairs,      \* set of <<A0, B0>> (tags unique inside the pair)
    ValSeqs,        \* [field -> set of sequences of pairwise distinct values] offered to Subset / RemoveRows
    DynVals,        \* TRUE: additionally offer values read off the current table (first / last row)
    SplitFields,    \* fields offered to Split
    Starts,         \* starting numbers offered to RenumberObjects
    Orders,         \* input lists offered to the merges: sequences of distinct names from "a", "b", "a2", "b2"
    NScore,         \* number of score tokens (Fork with bump rotates the score token)
    MinRows,        \* shrinking actions are enabled only if they leave >= MinRows rows (or remove nothing)
    ThirdGuard,     \* TRUE: ... and at least a third of the rows (keeps simulated histories on large tables informative)
    MaxRows,        \* merges are enabled only up to this size
    MaxDepth,
    Sched,          \* TRUE (simulation): the kind of the next operation is drawn at random first, so that kinds with
                    \* many parameter choices do not crowd out the others
    EmitMode        \* "none" | "tr" | "hist"

VARIABLES A, B, gen, op, d, hist, turn
vars == <<A, B, gen, op, d, hist, turn>>

KeyFields == {"sid", "tomo", "obj", "cls"}
\* selection / removal / splitting take any field name: also the real-valued score (a token here; the interpretation
\* maps tokens to fractional, partly negative values, so the clause is exact selection by the float value)
SelFields == KeyFields \cup {"score"}

\* JSON projection of a table: one array [sid, tomo, obj, score, cls, tag] per row
PJ(T) == [i \in DOMAIN T |-> <<T[i].sid, T[i].tomo, T[i].obj, T[i].score, T[i].cls, T[i].tag>>]

Keep(P) == Len(P) = Len(A) \/ (Len(P) >= MinRows /\ (~ThirdGuard \/ 3 * Len(P) >= Len(A)))

Kinds == {"subset", "remove", "split", "intersect", "dropdup", "merge_renumber", "merge_dropdup",
          "renumber_particles", "renumber_objects", "fork"}

Step(o, P, Q) == /\ (turn = "any" \/ turn = o.name)
                 /\ turn' = IF Sched THEN RandomElement(Kinds) ELSE "any"
                 /\ A' = P
                 /\ B' = Q
                 /\ op' = o
                 /\ d' = d + 1
                 /\ hist' = IF EmitMode = "hist"
                            THEN Append(hist, [op |-> o, a |-> PJ(P), bch |-> (Q # B), b |-> IF Q # B THEN PJ(Q) ELSE <<>>])
                            ELSE hist

Offered(f) == ValSeqs[f] \cup
              (IF DynVals /\ A # <<>>
               THEN LET x == Get(A[1], f)
                        y == Get(A[Len(A)], f)
                    IN  {<<x>>, <<y>>} \cup (IF x # y THEN {<<y, x>>} ELSE {})
               ELSE {})

Subset(f, vals) == LET P == SubsetOf(A, f, vals) IN
                   /\ Keep(P)
                   /\ Step([name |-> "subset", f |-> f, vals |-> vals], P, B) /\ UNCHANGED gen

RemoveRows(f, vals) == LET P == RemoveOf(A, f, vals) IN
                       /\ Keep(P)
                       /\ Step([name |-> "remove", f |-> f, vals |-> vals], P, B) /\ UNCHANGED gen

SplitAct(f, k, parts) ==
               /\ Keep(parts[k])
               /\ Step([name |-> "split", f |-> f, k |-> k, parts |-> [m \in DOMAIN parts |-> PJ(parts[m])]], parts[k], B)
               /\ UNCHANGED gen
Split(f) == LET parts == SplitOf(A, f) IN \E k \in DOMAIN parts : SplitAct(f, k, parts)

Intersect(f) == LET P == IntersectOfBy(A, B, f) IN
                /\ Keep(P)
                /\ Step([name |-> "intersect", f |-> f], P, B) /\ UNCHANGED gen

DropDup(dupf, asc) == LET P == DropDupOf(A, dupf, asc) IN
                      /\ Keep(P)
                      /\ Step([name |-> "dropdup", f |-> dupf, asc |-> asc], P, B) /\ UNCHANGED gen

\* Merges take a list of 1..4 inputs named "a" (A), "b" (B), "a2", "b2" (copies of A / B with fresh tags - the
\* harness builds them from this state - so that one call can receive the same numbering ranges several times)
Retag(T, g) == [i \in DOMAIN T |-> [T[i] EXCEPT !.tag = 1000 * g + i]]
CopyA == Retag(A, gen + 1)
CopyB == Retag(B, gen + 2)
Input(nm) == CASE nm = "a" -> A [] nm = "b" -> B [] nm = "a2" -> CopyA [] nm = "b2" -> CopyB
Inputs(order) == [k \in DOMAIN order |-> Input(order[k])]

Mergeable(order) == /\ Tags(A) \cap Tags(B) = {}
                    /\ TotalLen(Inputs(order)) <= MaxRows

MergeOp(n, order) == [name |-> n, order |-> order,
                      a2 |-> IF \E k \in DOMAIN order : order[k] = "a2" THEN PJ(CopyA) ELSE <<>>,
                      b2 |-> IF \E k \in DOMAIN order : order[k] = "b2" THEN PJ(CopyB) ELSE <<>>]

MergeRenumber(order) == /\ Mergeable(order)
                        /\ Step(MergeOp("merge_renumber", order), MergeRenumberOf(Inputs(order)), B)
                        /\ gen' = gen + 2

MergeDropDup(order) == /\ Mergeable(order)
                       /\ Step(MergeOp("merge_dropdup", order), MergeDropDupOf(Inputs(order)), B)
                       /\ gen' = gen + 2

RenumberParticles == Step([name |-> "renumber_particles"], RenumberOf(A), B) /\ UNCHANGED gen

RenumberObjects(start) == Step([name |-> "renumber_objects", start |-> start], RenumberObjectsOf(A, start), B)
                          /\ UNCHANGED gen

\* B := copy of A with fresh tags (and, with bump = 1, rotated score tokens); not a cryoCAT call
Fork(bump) == /\ gen' = gen + 1
              /\ Step([name |-> "fork", bump |-> bump], A,
                      [i \in DOMAIN A |-> [A[i] EXCEPT !.tag = 1000 * (gen + 1) + i,
                                                       !.score = IF bump = 1 THEN (@ % NScore) + 1 ELSE @]])

Init == /\ \E pr \in InitPairs : A = pr[1] /\ B = pr[2]
        /\ gen = 0
        /\ op = [name |-> "init"]
        /\ d = 0
        /\ turn \in (IF Sched THEN Kinds ELSE {"any"})
        /\ hist = IF EmitMode = "hist" THEN <<[op |-> [name |-> "init"], a |-> PJ(A), bch |-> TRUE, b |-> PJ(B)]>> ELSE <<>>

\* simulation only: one extra stuttering-like step after the last operation, so that the complete history is
\* printed once (for the behaviour TLC actually chose) and not for every candidate successor
Finish == /\ EmitMode = "hist" /\ d = MaxDepth
          /\ d' = d + 1 /\ op' = [name |-> "finish"]
          /\ UNCHANGED <<A, B, gen, hist, turn>>

\* simulation only: the drawn kind may be disabled in this state; draw again (does not count as an operation)
Redraw == /\ Sched /\ d < MaxDepth
          /\ turn' = RandomElement(Kinds \ {turn})
          /\ op' = [name |-> "redraw"]
          /\ UNCHANGED <<A, B, gen, d, hist>>

\* the kind guard comes first so that, under the scheduler, only the drawn kind is evaluated at all
Turn(k) == turn = "any" \/ turn = k

Ops ==  /\ d < MaxDepth
        /\ \/ Turn("subset") /\ \E f \in SelFields : \E vals \in Offered(f) : Subset(f, vals)
           \/ Turn("remove") /\ \E f \in SelFields : \E vals \in Offered(f) : RemoveRows(f, vals)
           \/ Turn("split") /\ \E f \in SplitFields : Split(f)
           \/ Turn("intersect") /\ \E f \in KeyFields : Intersect(f)
           \/ Turn("dropdup") /\ \E dupf \in {"sid", "obj"} : \E asc \in BOOLEAN : DropDup(dupf, asc)
           \/ Turn("merge_renumber") /\ \E order \in Orders : MergeRenumber(order)
           \/ Turn("merge_dropdup") /\ \E order \in Orders : MergeDropDup(order)
           \/ Turn("renumber_particles") /\ RenumberParticles
           \/ Turn("renumber_objects") /\ \E s \in Starts : RenumberObjects(s)
           \/ Turn("fork") /\ \E bump \in {0, 1} : Fork(bump)

Next == Ops \/ Finish \/ Redraw

Spec == Init /\ [][Next]_vars

-----------------------------------------------------------------------------
\* Property clauses (C08)

OpIs(n) == op'.name = n
Pool == Range(A) \cup Range(B) \cup Range(CopyA) \cup Range(CopyB)
RowFields == {"sid", "tomo", "obj", "score", "cls", "tag"}

\* abstract counterpart of "exactly the 20 fields": a row is exactly the six abstract fields, in both registers
C08_Schema == \A T \in {A, B} : \A i \in DOMAIN T : DOMAIN T[i] = RowFields

\* tags stay unique inside the union of the registers except for the rows a merge copied from B
TagsUnique == Cardinality(Tags(A)) = Len(A) /\ Cardinality(Tags(B)) = Len(B)

Touched(n) == CASE n = "renumber_particles" -> {"sid"}
                [] n = "renumber_objects" -> {"obj"}
                [] n = "merge_renumber" -> {"sid", "obj"}
                [] n = "merge_dropdup" -> {"obj"}
                [] OTHER -> {}

\* Frame conditions.  A call computes A' from (A, B, parameters) only: B, the parameter values and every table an
\* earlier call returned are not state of this step, so no action can change them (B' = B below; in the trace
\* specification the observed counterparts are C08_ArgumentsUntouched and C08_EarlierResultsUntouched).
C08_TagsIntact == [][~OpIs("fork") /\ ~OpIs("finish") /\ ~OpIs("redraw") => TagsIntact(Pool, Touched(op'.name), A') /\ B' = B]_vars

C08_SubsetExact == [][OpIs("subset") => SubsetExact(A, op'.f, op'.vals, A')]_vars

C08_SplitPartitions ==
    [][OpIs("split") => /\ SplitPartitions(A, op'.f, SplitOf(A, op'.f))
                        /\ A' = SplitOf(A, op'.f)[op'.k]]_vars

C08_RemoveComplementsSubset ==
    [][OpIs("remove") => /\ RemoveComplementsSubset(A, op'.f, op'.vals, A')
                         \* complementarity with the selection of the same values, as multisets of rows
                         /\ \A r \in Range(A) : Count(A', r) + Count(SubsetOf(A, op'.f, op'.vals), r) = Count(A, r)]_vars

C08_IntersectionExact == [][OpIs("intersect") => IntersectionExactBy(A, B, op'.f, A')]_vars

C08_DropDupOneBest == [][OpIs("dropdup") => DropDupOneBest(A, op'.f, op'.asc, A')]_vars

C08_MergeNumbers == [][OpIs("merge_renumber") => MergeNumbers(Inputs(op'.order), A')]_vars

C08_MergeDropDupOneBest == [][OpIs("merge_dropdup") => MergeDropDupOneBest(Inputs(op'.order), A')]_vars

C08_ParticlesRenumbered == [][OpIs("renumber_particles") => ParticlesRenumbered(A, A')]_vars

C08_ObjectsSequential == [][OpIs("renumber_objects") => ObjectsSequential(A, op'.start, A')]_vars

TypeOK == d \in 0..(MaxDepth + 1) /\ TagsUnique

-----------------------------------------------------------------------------
\* emission
EmitTR == \/ EmitMode # "tr"
          \/ PrintT(ToJson([a0 |-> PJ(A), b0 |-> PJ(B), op |-> op', a |-> PJ(A'), b |-> PJ(B')]))

EmitHist == \/ EmitMode # "hist"
            \/ d <= MaxDepth
            \/ PrintT(ToJson([hist |-> hist]))

View == <<A, B, gen, d>>
=============================================================================

-------------------------- MODULE ThicknessTrace --------------------------
(***************************************************************************)
(* C20, code -> spec.  One trace = one random double sheet and the calls    *)
(* made on it:                                                             *)
(*   base    measure_thickness_cpu(points, normals, mask1, mask2, ...)     *)
(*   moved   the same after a rigid motion of all points and normals       *)
(*   scaled  voxel size and max thickness multiplied by the same factor    *)
(*   revoxel the same physical sheets at another voxel size (coordinates   *)
(*           divided by the factor, voxel size multiplied by it)           *)
(*   swap    the other direction flag                                      *)
(*   relabel the base direction with the two masks exchanged               *)
(*   kernel  find_matches_parallel (numba candidate generator)             *)
(*   recheck the arrays returned by the base call, looked at again after   *)
(*           all later calls (which re-use the caller's own arrays)        *)
(*                                                                         *)
(* The driver logs, computed by brute force over all pairs with the        *)
(* TANGENT criterion, the admissible pairs of both directions as           *)
(* <<source, target, rank>> (rank = position in the ascending distance      *)
(* order, strict among pairs that share a point - cases with a near tie    *)
(* are discarded), the surface label of every point, and per call the      *)
(* returned pairs with: rank (0 = not admissible), reported thickness and  *)
(* |t-s|*voxel (both x1e5, nm), the three geometric flags of the pair.     *)
(* (That no call changes the caller's arrays - C20_ArgumentsUnchanged - is a    *)
(* frame condition checked by the driver with mbt/argguard.py.)             *)
(* The predicate ValidPairs of Thickness.tla decides.                      *)
(***************************************************************************)
EXTENDS Integers, Sequences, FiniteSets, TLC, Json, IOUtils

Th == INSTANCE Thickness WITH Src <- {}, Tgt <- {}, Cap <- 0, Inputs <- {},
                              adm <- {}, cand <- {}, ord <- <<>>, M <- {}, inp <- <<>>

Traces == ndJsonDeserialize(IOEnv.TRACE_FILE)

VARIABLES tid, l, ok, clause
vars == <<tid, l, ok, clause>>

T == Traces[tid]
Events == T.ev
N == T.n

RangeOf(seq) == { seq[i] : i \in DOMAIN seq }
Abs(x) == IF x < 0 THEN -x ELSE x

AdmSeq(dir) == IF dir = "1to2" THEN T.adm12 ELSE T.adm21
Other(dir) == IF dir = "1to2" THEN "2to1" ELSE "1to2"

\* the returned pairing of a measurement event as <<source, target, rank>>
Pairing(e) == { <<e.out[k].s, e.out[k].t, e.out[k].r>> : k \in DOMAIN e.out }
Bare(P) == { <<m[1], m[2]>> : m \in P }

CloserRank(e, m) == e[3] < m[3]

Near(a, b, rel) == Abs(a - b) <= 1 + (b \div rel)

\* (thickness is stored as float32: 1e-5 relative + one unit is ten times what the double-precision path shows, also for
\* sheets posed 1e6 voxels from the origin)
\* thickness of source s in event e (x1e5), 0 when s is not paired there
ThickOf(e, s) == LET ks == { k \in DOMAIN e.out : e.out[k].s = s }
                 IN  IF ks = {} THEN 0 ELSE e.out[CHOOSE k \in ks : TRUE].got

Measurement(e) ==
    LET A == RangeOf(AdmSeq(e.dir))
        P == Pairing(e)
        O == RangeOf(e.out)
    IN  IF e.lens # <<N, N, N>> THEN "C20_ResultShape"
        ELSE IF \E o \in O : T.surf[o.s] # Th!SrcLabel(e.dir) \/ T.surf[o.t] # Th!TgtLabel(e.dir)
             THEN "C20_DirectionRoles"
        ELSE IF ~Th!C20_OneToOne(P) \/ Cardinality(P) # Len(e.out) THEN "C20_OneToOne"
        ELSE IF \E o \in O : ~o.fw THEN "C20_Forward"
        ELSE IF \E o \in O : ~o.rg \/ o.got > e.maxs + 1 + (e.maxs \div 10000) THEN "C20_WithinMaxThickness"
        ELSE IF \E o \in O : ~o.cn THEN "C20_WithinCone"
        ELSE IF ~Th!C20_Admissible(P, A) THEN "TRACE_INCONSISTENT"   \* all flags hold, yet not logged as admissible
        ELSE IF \E o \in O : ~Near(o.got, o.exp, 100000) THEN "C20_ThicknessIsDistance"
        ELSE IF ~Th!C20_Maximal(P, A) THEN "C20_Maximal"
        ELSE IF ~Th!C20_NoCloserFree(P, A, CloserRank) THEN "C20_NoCloserFree"
        ELSE "none"

\* laws that relate an event to an earlier one (ref = its index)
SamePairs(e, f) == Bare(Pairing(e)) = Bare(Pairing(f))

Law(e) ==
    IF e.kind = "moved" THEN
        IF SamePairs(e, Events[e.ref]) /\ \A o \in RangeOf(e.out) : Near(o.got, ThickOf(Events[e.ref], o.s), 10000)
        THEN "none" ELSE "C20_MotionInvariant"
    ELSE IF e.kind = "scaled" THEN
        \* same pairs; every thickness is the reference thickness times the factor (pre-multiplied by the driver: o.ref)
        IF SamePairs(e, Events[e.ref]) /\ \A o \in RangeOf(e.out) : Near(o.got, o.ref, 10000)
        THEN "none" ELSE "C20_VoxelScales"
    ELSE IF e.kind = "revoxel" THEN
        \* the same physical sheets expressed at another voxel size (coordinates divided, voxel size multiplied by the
        \* factor, maximum thickness in nm unchanged): same pairs, same thickness in nm
        IF SamePairs(e, Events[e.ref]) /\ \A o \in RangeOf(e.out) : Near(o.got, ThickOf(Events[e.ref], o.s), 10000)
        THEN "none" ELSE "C20_VoxelScales"
    ELSE IF e.kind = "relabel" THEN
        \* masks exchanged under the base direction = the other direction with the original masks
        IF SamePairs(e, Events[e.ref]) THEN "none" ELSE "C20_DirectionSwaps"
    ELSE "none"

\* the numba kernel is a candidate generator: its candidate set is the admissible set, with the right distances
Kernel(e) ==
    LET A == Bare(RangeOf(AdmSeq(e.dir)))
        C == { <<e.cand[k][1], e.cand[k][2]>> : k \in DOMAIN e.cand }
    IN  IF C # A \/ Cardinality(C) # Len(e.cand) THEN "C20_KernelCandidates"
        ELSE IF \E k \in DOMAIN e.cand : ~Near(e.cand[k][3], e.cand[k][4], 100000) THEN "C20_KernelDistance"
        ELSE "none"

\* (a "relabel" event is logged with its EFFECTIVE direction - the other one - and is judged like any measurement)
Failing(e) ==
    IF e.kind = "kernel" THEN Kernel(e)
    ELSE LET c == Measurement(e) IN IF c # "none" THEN c ELSE Law(e)

TraceInit == /\ tid \in 1..Len(Traces)
             /\ l = 1
             /\ ok = TRUE
             /\ clause = "none"

TraceNext == /\ ok
             /\ l <= Len(Events)
             /\ LET c == Failing(Events[l]) IN ok' = (c = "none") /\ clause' = c
             /\ l' = l + 1
             /\ UNCHANGED tid

TraceSpec == TraceInit /\ [][TraceNext]_vars

Report == \/ (ok /\ l <= Len(Events))
          \/ PrintT(<<"VERDICT", ToJson([tid |-> tid, ok |-> ok, clause |-> clause, step |-> l - 1])>>)
=============================================================================

------------------------------ MODULE Suppress ------------------------------
(***************************************************************************)
(* C07 - score-ranked distance suppression (Motl.clean_by_distance) and     *)
(* peak extraction from a score map (tmana.scores_extract_particles).       *)
(*                                                                          *)
(* Abstract data: points 1..N, a group per point, a strict rank (1 = best), *)
(* and a symmetric irreflexive relation "close" (closer than the radius).   *)
(* The property is the predicate Valid(kept).  The module also contains an  *)
(* algorithm-level model of the greedy loop (one action per pick), which    *)
(* TLC checks against Valid for every relation / grouping in a small scope, *)
(* and the theorem that with strict ranks Valid has exactly one solution.   *)
(***************************************************************************)
EXTENDS Integers, Sequences, FiniteSets, TLC, Json

CONSTANTS
    N,            \* number of points
    Groups,       \* set of group ids
    Side,         \* lattice side: positions are drawn from (0..Side-1)^2 x {0}  (exact mode), 0 = abstract mode
    D2s,          \* set of squared radii offered in exact mode (non-squares => no distance ties on the lattice)
    EmitMode      \* "none" | "case"

VARIABLES
    grp,          \* [1..N -> Groups]
    close,        \* set of unordered close pairs, stored as {<<i,j>> : i < j}
    pos,          \* exact mode: [1..N -> lattice points]; abstract mode: <<>>
    d2,           \* exact mode: squared radius; abstract mode: 0
    und,          \* undecided points
    kept,         \* points kept so far
    phase         \* "run" | "done"

vars == <<grp, close, pos, d2, und, kept, phase>>

Pts == 1..N
\* rank = the index itself (1 = best): every strict ranking is a relabelling of this one
Rank(p) == p

IsClose(p, q) == IF p < q THEN <<p, q>> \in close ELSE <<q, p>> \in close

-----------------------------------------------------------------------------
(* The property.                                                            *)
Separated(K) == \A p, q \in K : p # q /\ grp[p] = grp[q] => ~IsClose(p, q)

Dominated(K) == \A p \in Pts \ K : \E q \in K : grp[q] = grp[p] /\ IsClose(p, q) /\ Rank(q) < Rank(p)

Valid(K) == Separated(K) /\ Dominated(K)

\* groups do not affect each other: validity is decided group by group
ValidInGroup(K, g) ==
    LET G == {p \in Pts : grp[p] = g} IN
    /\ \A p, q \in K \cap G : p # q => ~IsClose(p, q)
    /\ \A p \in G \ K : \E q \in K \cap G : IsClose(p, q) /\ Rank(q) < Rank(p)

-----------------------------------------------------------------------------
(* Algorithm model: the loop of clean_by_distance / scores_extract_particles *)
Dist2(a, b) == (a[1]-b[1])*(a[1]-b[1]) + (a[2]-b[2])*(a[2]-b[2]) + (a[3]-b[3])*(a[3]-b[3])

Lattice == {<<x, y, 0>> : x \in 0..(Side-1), y \in 0..(Side-1)}

AllPairs == {<<i, j>> \in Pts \X Pts : i < j}

InitAbstract == /\ Side = 0
                /\ grp \in [Pts -> Groups]
                /\ close \in SUBSET AllPairs
                /\ pos = <<>> /\ d2 = 0

\* exact mode: distinct lattice positions; WLOG points are listed in increasing rank
InitExact == /\ Side > 0
             /\ grp \in [Pts -> Groups]
             /\ pos \in {f \in [Pts -> Lattice] : \A i, j \in Pts : i # j => f[i] # f[j]}
             /\ d2 \in D2s
             /\ close = {pr \in AllPairs : Dist2(pos[pr[1]], pos[pr[2]]) < d2}

Init == /\ (InitAbstract \/ InitExact)
        /\ und = Pts
        /\ kept = {}
        /\ phase = "run"

\* pick the best undecided point (of any group: groups are processed independently, so the interleaving of groups
\* is irrelevant - TLC explores all of them), keep it, discard its undecided close neighbours of the same group
Pick(p) == /\ phase = "run"
           /\ p \in und
           /\ \A q \in und : grp[q] = grp[p] => Rank(p) <= Rank(q)
           /\ kept' = kept \cup {p}
           /\ und' = und \ ({p} \cup {q \in und : grp[q] = grp[p] /\ IsClose(p, q)})
           /\ UNCHANGED <<grp, close, pos, d2, phase>>

Finish == /\ phase = "run" /\ und = {}
          /\ phase' = "done"
          /\ UNCHANGED <<grp, close, pos, d2, und, kept>>

Next == (\E p \in Pts : Pick(p)) \/ Finish

Spec == Init /\ [][Next]_vars

-----------------------------------------------------------------------------
(* What TLC checks (L1)                                                     *)
C07_GreedyValid == phase = "done" => Valid(kept)

C07_PartialSeparated == Separated(kept)

C07_GroupsIndependent == phase = "done" => \A g \in Groups : ValidInGroup(kept, g)

\* with strict ranks the valid set is unique: any algorithm that satisfies the property returns this set
C07_ValidUnique == phase = "done" => \A K \in SUBSET Pts : Valid(K) => K = kept

\* emission of exact cases for replay (L2)
EmitCase == \/ EmitMode # "case"
            \/ phase' # "done"
            \/ PrintT(ToJson([pos |-> pos, grp |-> grp, d2 |-> d2, kept |-> kept]))
=============================================================================

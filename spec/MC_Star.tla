------------------------------ MODULE MC_Star ------------------------------
(***************************************************************************)
(* C02, reader side.  A document (sequence of blocks of tokens) and a      *)
(* layout are chosen in the initial state; one action renders the text and *)
(* parses it again (ReadText), one lays the document out the way            *)
(* Starfile.write does and parses that (WriteText).                        *)
(*   C02_GrammarUnambiguous  Parse(Render(doc, lay)) = doc                 *)
(*   C02_WriterReadable      Parse(WriterShape(doc, numbered)) = doc, with  *)
(*                           RELION-style label numbers iff numbered        *)
(*   C02_ColumnTypes         a column is numeric iff all of its tokens are  *)
(*                           in the declared numeric part of the alphabet   *)
(* Every ReadText transition is emitted (text + what a reader must return) *)
(* and replayed through Starfile.read by the driver.                       *)
(***************************************************************************)
EXTENDS Star, Json

CONSTANTS Emit          \* BOOLEAN: print every ReadText transition

VARIABLES doc, lay, cid, mode, pc, text, out, numbered
vars == <<doc, lay, cid, mode, pc, text, out, numbered>>

-----------------------------------------------------------------------------
\* token alphabet (byte codes)
T1 == <<49>>                                \* 1
Tm25 == <<45, 50, 46, 53>>                  \* -2.5
T1em3 == <<49, 101, 45, 51>>                \* 1e-3
Tab == <<97, 98>>                           \* ab
Ta1 == <<97, 49>>                           \* a1
Tdatax == <<100, 97, 116, 97, 95, 120>>     \* data_x   (a data token that looks like a block name)
T12ab == <<49, 50, 97, 98>>                 \* 12ab
NumToks == {T1, Tm25, T1em3}
TextToks == {Tab, Ta1, Tdatax, T12ab}

NameEmpty == DataPrefix                                                                  \* data_
NameParticles == DataPrefix \o <<112, 97, 114, 116, 105, 99, 108, 101, 115>>             \* data_particles
NameOptics == DataPrefix \o <<111, 112, 116, 105, 99, 115>>                              \* data_optics
NameStopgap == DataPrefix \o StopgapWord \o <<95, 109, 111, 116, 108>>                   \* data_stopgap_motl
LabA == <<114, 108, 110, 65>>               \* rlnA
LabB == <<120, 95, 121>>                    \* x_y
Labels1 == <<LabA>>
Labels2 == <<LabA, LabB>>

Rows(alpha, nc, maxr) == UNION {[1..nr -> [1..nc -> alpha]] : nr \in 0..maxr}
Blocks(names, alpha, maxr) == {[name |-> nm, labels |-> L, rows |-> rs] :
                                   nm \in names, L \in {Labels1, Labels2}, rs \in Rows(alpha, 2, maxr)}
                              \cup {[name |-> nm, labels |-> Labels1, rows |-> rs] : nm \in names, rs \in Rows(alpha, 1, maxr)}
\* Rows(alpha, 2, .) under Labels1 would be ill-formed; keep only blocks whose rows fit the labels
Fit(bs) == {b \in bs : \A r \in 1..Len(b.rows) : Len(b.rows[r]) = Len(b.labels)}

FixedFirst == {[name |-> NameOptics, labels |-> Labels2, rows |-> <<<<T1, Tab>>, <<Tm25, Tdatax>>>>],
               [name |-> NameEmpty, labels |-> Labels1, rows |-> <<<<Tdatax>>>>]}
FixedSecond == {[name |-> NameParticles, labels |-> Labels2, rows |-> <<>>],
                [name |-> NameStopgap, labels |-> Labels2, rows |-> <<<<Ta1, T1em3>>, <<Tab, T1>>>>]}

\* documents: one block, or two blocks (an empty table only last)
DocsOver(alpha, maxr) ==
    LET one == Fit(Blocks({NameParticles, NameStopgap}, alpha, maxr))
        snd == Fit(Blocks({NameParticles}, alpha, maxr))
        fst == {b \in Fit(Blocks({NameOptics}, alpha, maxr)) : Len(b.rows) >= 1}
    IN  {<<b>> : b \in one} \cup {<<a, b>> : a \in FixedFirst, b \in snd} \cup {<<a, b>> : a \in fst, b \in FixedSecond}

QuickDocs == DocsOver({T1, Tab, Tdatax}, 1) \cup DocsOver({Tm25, Ta1}, 2)

-----------------------------------------------------------------------------
\* layouts
LaySet(P, Bt, AN, AL, Po, Sf, Se, LT, Cr, Fn) ==
    {[pre |-> p, between |-> bt, afterName |-> an, afterLabels |-> al, post |-> po, suffix |-> sf, seps |-> se,
      lead |-> lt[1], trail |-> lt[2], crlf |-> cr, finalNL |-> fn] :
        p \in P, bt \in Bt, an \in AN, al \in AL, po \in Po, sf \in Sf, se \in Se, lt \in LT, cr \in Cr, fn \in Fn}

GPre == {<<>>, <<"blank", "comment">>}
GBetween == {<<"blank">>, <<"comment">>, <<"ws", "icomment", "blank">>}
GAfterName == {<<>>, <<"blank">>}
GAfterLabels == {<<>>, <<"blank">>, <<"comment", "ws">>}
GPost == {<<>>, <<"blank", "ws">>}
GSuffix == {"none", "sp", "tab"}
GSeps == {<<<<SP>>>>, <<<<TAB>>>>, <<<<SP, SP>>, <<TAB, SP>>>>}
GLeadTrail == {<<<<>>, <<>>>>, <<<<SP>>, <<SP, TAB>>>>}

\* two families: all gap combinations under a plain and a fancy token layout, all token layouts under two gap settings
QuickLays ==
    LaySet(GPre, GBetween, GAfterName, GAfterLabels, GPost, {"sp"}, {<<<<TAB>>>>}, {<<<<>>, <<>>>>}, {FALSE}, {TRUE})
    \cup LaySet(GPre, GBetween, GAfterName, GAfterLabels, GPost, {"tab"}, {<<<<SP, SP>>, <<TAB, SP>>>>}, {<<<<SP>>, <<SP, TAB>>>>}, {TRUE}, {FALSE})
    \cup LaySet({<<>>}, {<<"blank">>}, {<<"blank">>}, {<<>>}, {<<>>}, GSuffix, GSeps, GLeadTrail, BOOLEAN, BOOLEAN)
    \cup LaySet({<<"blank", "comment">>}, {<<"ws", "icomment", "blank">>}, {<<>>}, {<<"comment", "ws">>}, {<<"blank", "ws">>},
                GSuffix, GSeps, GLeadTrail, BOOLEAN, BOOLEAN)

\* a few layouts that together use every freedom at least once
PlainLay == [pre |-> <<>>, between |-> <<"blank">>, afterName |-> <<"blank">>, afterLabels |-> <<>>, post |-> <<>>, suffix |-> "sp",
             seps |-> <<<<TAB>>>>, lead |-> <<>>, trail |-> <<>>, crlf |-> FALSE, finalNL |-> TRUE]
CoreLays == {PlainLay,
             [PlainLay EXCEPT !.suffix = "none", !.afterLabels = <<"blank">>, !.seps = <<<<SP>>>>, !.finalNL = FALSE],
             [PlainLay EXCEPT !.crlf = TRUE, !.trail = <<SP, TAB>>, !.lead = <<SP>>, !.seps = <<<<SP, SP>>, <<TAB, SP>>>>],
             [PlainLay EXCEPT !.pre = <<"blank", "comment">>, !.between = <<"comment">>, !.afterName = <<>>,
                              !.afterLabels = <<"comment", "ws">>, !.post = <<"blank", "ws">>, !.suffix = "tab"],
             [PlainLay EXCEPT !.between = <<"ws", "icomment", "blank">>, !.crlf = TRUE, !.finalNL = FALSE, !.post = <<"blank", "ws">>,
                              !.suffix = "none", !.trail = <<SP, TAB>>],
             [PlainLay EXCEPT !.pre = <<"blank", "comment">>, !.afterLabels = <<"blank">>, !.seps = <<<<SP, SP>>, <<TAB, SP>>>>,
                              !.lead = <<SP>>, !.suffix = "tab", !.crlf = TRUE]}

KeyDocs == {<<a, b>> : a \in FixedFirst, b \in FixedSecond}
           \cup {<<[name |-> NameParticles, labels |-> Labels2, rows |-> <<<<T1em3, T12ab>>, <<T1, Tm25>>>>]>>}

-----------------------------------------------------------------------------
None == [ok |-> FALSE, blocks |-> <<>>]

Start == pc = "start" /\ text = <<>> /\ out = None /\ numbered = FALSE

\* scope: every document under the core layouts, the key documents under every layout, every document through the writer
InitOver(docs, lays) ==
    /\ cid = 0
    /\ \/ doc \in docs /\ lay \in CoreLays /\ mode = "read"
       \/ doc \in KeyDocs /\ lay \in lays /\ mode = "read"
       \/ doc \in docs /\ lay = PlainLay /\ mode = "write"
    /\ Start

QuickInit == InitOver(QuickDocs, QuickLays)

ReadText == /\ pc = "start" /\ mode = "read"
            /\ text' = Render(doc, lay)
            /\ out' = Parse(text')
            /\ pc' = "read"
            /\ UNCHANGED <<doc, lay, cid, mode, numbered>>

WriteText == /\ pc = "start" /\ mode = "write"
             /\ \E nb \in BOOLEAN :
                  /\ numbered' = nb
                  /\ text' = WriterShape(doc, nb)
             /\ out' = Parse(text')
             /\ pc' = "written"
             /\ UNCHANGED <<doc, lay, cid, mode>>

Next == ReadText \/ WriteText

-----------------------------------------------------------------------------
C02_GrammarUnambiguous ==
    pc = "read" => /\ out.ok
                   /\ Core(out.blocks) = doc
                   /\ \A b \in 1..Len(doc) : \A k \in 1..Len(doc[b].labels) : out.blocks[b].suffix[k] = SuffixSeen(lay, k)

C02_WriterReadable ==
    pc = "written" => /\ out.ok
                      /\ Core(out.blocks) = doc
                      /\ \A b \in 1..Len(doc) : SuffixOK(out.blocks[b], numbered)
                      /\ (numbered /\ \A b \in 1..Len(doc) : ~IsStopgapName(doc[b].name))
                            => \A b \in 1..Len(doc) : \A k \in 1..Len(doc[b].labels) :
                                    out.blocks[b].suffix[k] = <<TRUE, DigitsOf(k)>>

C02_ColumnTypes ==
    pc \in {"read", "written"} /\ out.ok =>
        \A b \in 1..Len(doc) : \A k \in 1..Len(doc[b].labels) :
            LET ty == Typed(out.blocks)[b].types[k]
                col == {doc[b].rows[r][k] : r \in 1..Len(doc[b].rows)}
            IN  IF col = {} THEN ty = "none" ELSE (ty = "num") = (col \subseteq NumToks)

\* declared values of numeric spellings (independent statement of NumCanon / IsNumeric)
Cn(neg, ds, e) == [neg |-> neg, digits |-> ds, exp |-> e]
ASSUME /\ NumCanon(T1) = Cn(FALSE, <<1>>, 0)
       /\ NumCanon(Tm25) = Cn(TRUE, <<2, 5>>, -1)
       /\ NumCanon(T1em3) = Cn(FALSE, <<1>>, -3)
       /\ NumCanon(<<43, 53>>) = Cn(FALSE, <<5>>, 0)                              \* +5
       /\ NumCanon(<<46, 53>>) = Cn(FALSE, <<5>>, -1)                             \* .5
       /\ NumCanon(<<53, 46>>) = Cn(FALSE, <<5>>, 0)                              \* 5.
       /\ NumCanon(<<49, 69, 53>>) = Cn(FALSE, <<1>>, 5)                          \* 1E5
       /\ NumCanon(<<48, 46, 48>>) = ZeroCanon                                    \* 0.0
       /\ NumCanon(<<45, 48, 46, 48>>) = ZeroCanon                                \* -0.0
       /\ NumCanon(<<49, 46, 53, 48, 101, 43, 48, 50>>) = Cn(FALSE, <<1, 5>>, 1)  \* 1.50e+02
       /\ NumCanon(<<48, 48, 55>>) = Cn(FALSE, <<7>>, 0)                          \* 007
       /\ NumCanon(<<49, 50, 48, 48>>) = Cn(FALSE, <<1, 2>>, 2)                   \* 1200
       /\ NumCanon(<<45, 48, 46, 48, 48, 49, 50, 51, 48>>) = Cn(TRUE, <<1, 2, 3>>, -5)   \* -0.001230
ASSUME /\ RoundTo6(Cn(FALSE, <<1, 2, 3, 4, 5, 6, 5>>, -7)) = Cn(FALSE, <<1, 2, 3, 4, 5, 6>>, -6)       \* 0.1234565 (half, even)
       /\ RoundTo6(Cn(TRUE, <<1, 2, 3, 4, 5, 7, 5>>, -7)) = Cn(TRUE, <<1, 2, 3, 4, 5, 8>>, -6)          \* -0.1234575 (half, odd)
       /\ RoundTo6(Cn(FALSE, <<9, 9, 9, 9, 9, 9, 5>>, -7)) = Cn(FALSE, <<1>>, 0)                        \* 0.9999995 -> 1
       /\ RoundTo6(Cn(FALSE, <<9, 9, 9, 9, 9, 9, 9, 6>>, -7)) = Cn(FALSE, <<1>>, 1)                     \* 9.9999996 -> 10
       /\ RoundTo6(Cn(TRUE, <<1>>, -7)) = ZeroCanon /\ RoundTo6(Cn(FALSE, <<6>>, -7)) = Cn(FALSE, <<1>>, -6)
       /\ RoundTo6(Cn(FALSE, <<4>>, -8)) = ZeroCanon /\ RoundTo6(Cn(FALSE, <<9>>, -8)) = ZeroCanon
       /\ RoundTo6(Cn(TRUE, <<2, 1, 2, 3, 4, 5, 6, 7, 8, 9>>, -9)) = Cn(TRUE, <<2, 1, 2, 3, 4, 5, 7>>, -6)   \* -2.123456789
       /\ RoundTo6(Cn(FALSE, <<1, 2, 0, 0, 0, 0, 0, 4>>, -7)) = Cn(FALSE, <<1, 2>>, -1)                 \* 1.20000004 -> 1.2
       /\ RoundTo6(Cn(FALSE, <<1, 5>>, 19)) = Cn(FALSE, <<1, 5>>, 19) /\ RoundTo6(Cn(TRUE, <<2, 5>>, -1)) = Cn(TRUE, <<2, 5>>, -1)
ASSUME /\ \A t \in NumToks \cup {<<43, 53>>, <<46, 53>>, <<53, 46>>, <<49, 69, 53>>, <<48, 46, 48>>} : IsNumeric(t)
       /\ \A t \in TextToks \cup {<<46>>, <<45>>, <<101, 53>>, <<49, 101>>, <<49, 101, 43>>, <<49, 46, 50, 46, 51>>,
                                  <<49, 101, 50, 101, 51>>, <<45, 45, 49>>, <<49, 45>>, <<49, 95, 48>>} : ~IsNumeric(t)

-----------------------------------------------------------------------------
EmitRead == \/ ~Emit
            \/ pc' # "read"
            \/ PrintT(<<"RD", ToJson([cid |-> cid, lay |-> lay, lines |-> text', ok |-> out'.ok,
                                      expect |-> Typed(doc)])>>)
=============================================================================

------------------------------ MODULE RotGeom ------------------------------
(***************************************************************************)
(* C06 - rotation geometry primitives, stated on the cube rotation group.  *)
(*                                                                         *)
(* Pure definitions (the oracle):                                          *)
(*   AngDist(a, b)   rotation angle of the relative rotation a^-1 b        *)
(*   ConeDist(a, b)  angle between the two z-axes                          *)
(*   InPlaneAdm(a,b) what the property allows for the in-plane distance    *)
(*   Normals(seq)    one unit vector per orientation: the image of z       *)
(*   UnitOf(n)       the z-axis an orientation must have to represent the  *)
(*                   normal n (a rational vector n / |n|)                  *)
(*   FromNormal(n)   the set of cube orientations with that z-axis         *)
(*                                                                         *)
(* The state machine is the "pure function" idiom: Init picks an input     *)
(* (a pair of orientations, a batch of orientations, a normal vector), one *)
(* action computes the output.  The transitions are emitted as JSON and    *)
(* replayed into cryocat.geom by the driver (L2); the clauses are          *)
(* invariants of the reachable states (L1); the universally quantified     *)
(* laws (metric axioms, two-sided invariance) are constant-level formulas  *)
(* checked once in a one-state run.                                        *)
(***************************************************************************)
EXTENDS Integers, Sequences, FiniteSets, TLC, Json, Cube

CONSTANTS
    Pairs,          \* set of pairs <<a, b>> of cube orientations
    Batches,        \* set of sequences of cube orientations
    NormalVecs,     \* set of integer vectors (units of 1/8) with an integer, non-zero length
    EmitMode        \* "none" | "tr"

VARIABLES kind, inp, out, d
vars == <<kind, inp, out, d>>

-----------------------------------------------------------------------------
\* the oracle

AngDist(a, b) == Angle(Mul(Inv(a), b))

ConeDist(a, b) == AxisAngle(ZAxis(a), ZAxis(b))

\* the property only says: in [0,180], and 0 for equal orientations
InPlaneAdm(a, b) == IF a = b THEN [lo |-> 0, hi |-> 0] ELSE [lo |-> 0, hi |-> 180]

Normals(seq) == [i \in DOMAIN seq |-> ZAxis(seq[i])]

ISqrt(n) == CHOOSE L \in 0..n : L * L <= n /\ (L + 1) * (L + 1) > n
Len3(v) == ISqrt(Dot(v, v))
HasIntLen(v) == Dot(v, v) > 0 /\ Len3(v) * Len3(v) = Dot(v, v)

\* n / |n| as numerator vector and common denominator
UnitOf(v) == [num |-> v, den |-> Len3(v)]

\* orientation r represents normal v:  ZAxis(r) = v / |v|
Represents(r, v) == \A i \in 1..3 : ZAxis(r)[i] * Len3(v) = v[i]
FromNormal(v) == { r \in All : Represents(r, v) }

AxisAligned(v) == Cardinality({ i \in 1..3 : v[i] # 0 }) = 1

-----------------------------------------------------------------------------
\* the state machine

PairOut(a, b) == [ang |-> AngDist(a, b), cone |-> ConeDist(a, b), inplane |-> InPlaneAdm(a, b), same |-> a = b]

Init == /\ d = 0
        /\ out = <<>>
        /\ \/ kind = "pair"   /\ inp \in Pairs
           \/ kind = "batch"  /\ inp \in Batches
           \/ kind = "normal" /\ inp \in NormalVecs

Distances == /\ kind = "pair" /\ d = 0
             /\ out' = PairOut(inp[1], inp[2])
             /\ d' = 1 /\ UNCHANGED <<kind, inp>>

ToNormals == /\ kind = "batch" /\ d = 0
             /\ out' = [normals |-> Normals(inp)]
             /\ d' = 1 /\ UNCHANGED <<kind, inp>>

ToEuler == /\ kind = "normal" /\ d = 0
           /\ out' = [zaxis |-> UnitOf(inp), cube |-> { Code(r) : r \in FromNormal(inp) }]
           /\ d' = 1 /\ UNCHANGED <<kind, inp>>

Next == Distances \/ ToNormals \/ ToEuler

Spec == Init /\ [][Next]_vars

-----------------------------------------------------------------------------
\* clauses on the reachable states (L1)

IsPair == kind = "pair" /\ d = 1
IsBatch == kind = "batch" /\ d = 1
IsNormal == kind = "normal" /\ d = 1

TypeOK == /\ d \in {0, 1}
          /\ kind = "pair" => inp[1] \in All /\ inp[2] \in All
          /\ kind = "batch" => \A i \in DOMAIN inp : inp[i] \in All
          /\ kind = "normal" => HasIntLen(inp)

\* frame conditions of every call: the inputs (Euler arrays, Rotation objects, tables of normals) are left as they are and
\* can be reused; a result, once returned, is not changed by later calls (nothing happens after d = 1)
C06_InputsUntouched == [][inp' = inp /\ kind' = kind]_vars
C06_ResultsPersist == [][d = 1 => out' = out]_vars

C06_AngDistRange == IsPair => out.ang \in 0..180

C06_AngDistSymmetric == IsPair => out.ang = AngDist(inp[2], inp[1])

C06_AngDistZeroIffEqual == IsPair => (out.ang = 0 <=> inp[1] = inp[2])

\* the z-axis is moved by at most the rotation angle; equal z-axes <=> cone distance 0
C06_ConeIsZAxisAngle == IsPair => /\ out.cone \in {0, 90, 180}
                                  /\ (out.cone = 0 <=> ZAxis(inp[1]) = ZAxis(inp[2]))
                                  /\ (out.cone = 180 <=> ZAxis(inp[1]) = [i \in 1..3 |-> -ZAxis(inp[2])[i]])
                                  /\ out.cone <= out.ang

C06_InPlaneRange == IsPair => /\ out.inplane.lo = 0 /\ out.inplane.hi <= 180
                              /\ (inp[1] = inp[2] => out.inplane.hi = 0)

C06_NormalsAreUnitZImages == IsBatch => /\ Len(out.normals) = Len(inp)
                                        /\ \A i \in DOMAIN inp : /\ Dot(out.normals[i], out.normals[i]) = 1
                                                                 /\ out.normals[i] = Apply(inp[i], <<0, 0, 1>>)

\* every orientation that represents the normal has the normalised normal as z-axis (squared length 1),
\* and axis-aligned normals are represented by exactly four cube orientations (the free in-plane angle)
C06_EulerFromNormalHasThatZAxis ==
    IsNormal => /\ Dot(out.zaxis.num, out.zaxis.num) = out.zaxis.den * out.zaxis.den
                /\ \A c \in out.cube : \A i \in 1..3 : ZAxis(FromCode(c))[i] * out.zaxis.den = out.zaxis.num[i]
                /\ AxisAligned(inp) => Cardinality(out.cube) = 4
                /\ ~AxisAligned(inp) => out.cube = {}

-----------------------------------------------------------------------------
\* universally quantified laws over the whole group (constant level; checked in a one-state run)

C06_LawRange == \A a, b \in All : AngDist(a, b) \in {0, 90, 120, 180}
C06_LawSymmetric == \A a, b \in All : AngDist(a, b) = AngDist(b, a)
C06_LawZeroIffEqual == \A a, b \in All : AngDist(a, b) = 0 <=> a = b
C06_LawTriangle == \A a, b, c \in All : AngDist(a, c) <= AngDist(a, b) + AngDist(b, c)
C06_LawLeftInvariant == \A a, b, q \in All : AngDist(Mul(q, a), Mul(q, b)) = AngDist(a, b)
C06_LawRightInvariant == \A a, b, q \in All : AngDist(Mul(a, q), Mul(b, q)) = AngDist(a, b)
\* the cone distance is a pseudo-metric that ignores in-plane rotation (right multiplication by a z-rotation)
\* and is invariant under a common rotation on the left
C06_LawConeInPlaneBlind == \A a, b \in All : \A k \in 0..3 : ConeDist(Mul(a, Pow(Rz1, k)), b) = ConeDist(a, b)
C06_LawConeLeftInvariant == \A a, b, q \in All : ConeDist(Mul(q, a), Mul(q, b)) = ConeDist(a, b)
C06_LawConeTriangle == \A a, b, c \in All : ConeDist(a, c) <= ConeDist(a, b) + ConeDist(b, c)
\* normals <-> orientations round trip on the group
C06_LawNormalRoundTrip == \A r \in All : r \in FromNormal(ZAxis(r)) /\ \A k \in {1, 2, 7} :
                              r \in FromNormal([i \in 1..3 |-> k * ZAxis(r)[i]])

-----------------------------------------------------------------------------
\* emission (spec -> code)

PJ == CASE kind = "pair"  -> [a |-> Code(inp[1]), b |-> Code(inp[2])]
        [] kind = "batch" -> [rots |-> [i \in DOMAIN inp |-> Code(inp[i])]]
        [] kind = "normal" -> [v |-> inp]

EmitTR == \/ EmitMode # "tr"
          \/ PrintT(ToJson([kind |-> kind, inp |-> PJ, out |-> out']))
=============================================================================

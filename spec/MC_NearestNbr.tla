--------------------------- MODULE MC_NearestNbr ---------------------------
(* Model-checking scopes of NearestNbr.tla.  Positions are in units of 1/8 voxel (non-multiples of 8 = non-zero   *)
(* shifts); tomogram 3 only ever occurs in the first list (tomogram sets need not coincide).                       *)
EXTENDS NearestNbr

P(sid, t, p, R) == [sid |-> sid, t |-> t, p |-> p, R |-> R]
Cfg(la, lb, kk, ps) == [A |-> la, B |-> lb, k |-> kk, px |-> ps]

Tri(m) == FromZXZ(m % 4, (m \div 4) % 4, (m \div 16) % 4)
\* an orientation that depends on the position (variety without enlarging the scope)
OriOf(p) == Tri((p[1] + 3 * p[2] + 5 * p[3]) % 64)

PoolA == { <<8, 16, 24>>, <<44, -12, 20>> }
PoolB == { <<24, 16, 40>>, <<-16, 40, 24>>, <<52, 4, 12>>, <<9, 17, 30>> }

Injective(s) == \A i, j \in DOMAIN s : i # j => s[i] # s[j]
SeqsOf(S, lo, hi) == UNION { { s \in [1..n -> S] : Injective(s) } : n \in lo..hi }

\* lists: distinct positions, tomograms chosen freely, subtomogram numbers 1.. for A and 11.. for B
ListsA == UNION { { [i \in DOMAIN ps |-> P(i, ts[i], ps[i], OriOf(ps[i]))] : ts \in [DOMAIN ps -> {1, 2, 3}] }
                  : ps \in SeqsOf(PoolA, 1, 2) }
ListsB == UNION { { [i \in DOMAIN ps |-> P(10 + i, ts[i], ps[i], OriOf(ps[i]))] : ts \in [DOMAIN ps -> {1, 2}] }
                  : ps \in SeqsOf(PoolB, 1, 3) }

KPx == { <<1, <<2, 1>>>>, <<2, <<1, 2>>>>, <<3, <<3, 2>>>>, <<2, <<1, 1>>>> }

\* selection scope: which neighbours, in which order, from which tomogram, how many, pixel size
SelectConfigs == { Cfg(la, lb, kp[1], kp[2]) : la \in ListsA, lb \in ListsB, kp \in KPx }

\* orientation scope: one query, two candidates, all 24 x 24 orientations of the query and its nearest neighbour
OrientConfigs == { Cfg(<<P(1, 1, <<8, 16, 24>>, ra)>>,
                       <<P(11, 1, <<-16, 40, 24>>, Rx1), P(12, 1, <<24, 16, 40>>, rb)>>, 2, <<1, 1>>) : ra \in All, rb \in All }

\* coincident lists: the second list is the first one (every particle is its own nearest neighbour at distance 0)
SelfLists == UNION { { [i \in DOMAIN ps |-> P(i, ts[i], ps[i], OriOf(ps[i]))] : ts \in [DOMAIN ps -> {1, 2}] }
                     : ps \in SeqsOf(PoolB, 2, 3) }
SelfConfigs == { Cfg(l, l, kk, <<1, 1>>) : l \in SelfLists, kk \in 1..3 }

\* two DIFFERENT lists with exactly coincident positions: a candidate sits at the query's own complete position (distance
\* exactly 0) but has its own orientation - all 24 x 24 orientations of the query and of the coincident candidate;
\* with and without a second query whose coincident partner lives in another tomogram
SamePosConfigs == { Cfg(<<P(1, 1, <<8, 16, 24>>, ra)>>,
                        <<P(11, 1, <<24, 16, 40>>, Rx1), P(12, 1, <<8, 16, 24>>, rb)>>, kk, <<1, 1>>) : ra \in All, rb \in All, kk \in {1, 2} }
                  \cup { Cfg(<<P(1, 1, <<8, 16, 24>>, ra), P(2, 2, <<9, 17, 30>>, Mul(ra, Rz1))>>,
                            <<P(11, 2, <<8, 16, 24>>, Ry1), P(12, 1, <<8, 16, 24>>, rb), P(13, 2, <<9, 17, 30>>, rb)>>, 2, <<3, 2>>)
                        : ra \in {Id, Rx1, Mul(Rz1, Rx1)}, rb \in All }

\* numbering that restarts in every tomogram: subtomogram numbers repeat across tomograms and are shared by both lists
\* (a number identifies a particle only together with its tomogram)
SidRestart(l) == [i \in DOMAIN l |-> [l[i] EXCEPT !.sid = Cardinality({ j \in 1..i : l[j].t = l[i].t })]]
RestartConfigs == { Cfg(SidRestart(la), SidRestart(lb), kp[1], kp[2]) :
                       la \in { l \in ListsA : Len(l) = 2 }, lb \in { l \in ListsB : Len(l) = 3 },
                       kp \in { <<2, <<1, 1>>>>, <<3, <<3, 2>>>> } }

RestartConfigsQuick == { c \in RestartConfigs : c.k = 3 }
\* the three small static scopes in one run (the driver tells them apart by their structure)
StaticConfigs == OrientConfigs \cup SelfConfigs \cup SamePosConfigs

\* motion scope: two queries, three candidates in two tomograms, every cube rotation, two translations, each tomogram
MotionBase == { Cfg(<<P(1, 1, <<8, 16, 24>>, ra), P(2, 2, <<44, -12, 20>>, Ry1)>>,
                    <<P(11, t1, <<24, 16, 40>>, Rx1), P(12, 1, <<-16, 40, 24>>, Mul(Rz1, Rx1)), P(13, 2, <<52, 4, 12>>, rb),
                      P(14, t1, <<9, 17, 30>>, Rz1)>>, kk, <<1, 2>>)
                : ra \in {Id, Rz1, Mul(Rx1, Ry1)}, rb \in {Id, Inv(Ry1)}, t1 \in {1, 2}, kk \in {1, 3} }
MotionConfigsThorough == MotionBase \cup { c \in SelfConfigs : c.k = 2 /\ Len(c.A) = 3 }
MotionConfigsQuick == { c \in MotionBase : c.k = 3 } \cup
                      { c \in SelfConfigs : c.k = 2 /\ Len(c.A) = 3 /\ c.A[1].p = <<24, 16, 40>> /\ c.A[2].p = <<-16, 40, 24>> }

MCShifts == { <<8, -16, 24>>, <<3, 0, -5>> }
NoShift == { <<0, 0, 0>> }
Gens == { Rz1, Rx1, Mul(Rz1, Rx1) }
=============================================================================

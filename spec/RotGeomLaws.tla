---------------------------- MODULE RotGeomLaws ----------------------------
(* C06: the universally quantified laws of RotGeom.tla over the whole cube group (24^2 pairs, 24^3 triples), *)
(* asserted as constant-level ASSUMEs; TLC evaluates them once before the (one-state) model is explored.     *)
EXTENDS MC_RotGeom

ASSUME A_LawRange == C06_LawRange
ASSUME A_LawSymmetric == C06_LawSymmetric
ASSUME A_LawZeroIffEqual == C06_LawZeroIffEqual
ASSUME A_LawTriangle == C06_LawTriangle
ASSUME A_LawLeftInvariant == C06_LawLeftInvariant
ASSUME A_LawRightInvariant == C06_LawRightInvariant
ASSUME A_LawConeInPlaneBlind == C06_LawConeInPlaneBlind
ASSUME A_LawConeLeftInvariant == C06_LawConeLeftInvariant
ASSUME A_LawConeTriangle == C06_LawConeTriangle
ASSUME A_LawNormalRoundTrip == C06_LawNormalRoundTrip
\* the scopes handed to the L2 runs are what the driver says they are
ASSUME A_Scopes == /\ Cardinality(MCPairs) = 576
                   /\ \A v \in MCNormals : HasIntLen(v)
                   /\ Cardinality(MCAxisNormals) = 18
                   /\ { ZAxis(r) : r \in All } = SignedPermsOf(<<0, 0, 1>>)
                   /\ \A b \in MCBatches \cup MCBigQuick \cup MCBigThorough : \A i \in DOMAIN b : b[i] \in All
                   /\ { Tri(m) : m \in 0..63 } = All
=============================================================================

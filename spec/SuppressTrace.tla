--------------------------- MODULE SuppressTrace ---------------------------
(***************************************************************************)
(* C07, code -> spec.  Each trace is one call of Motl.clean_by_distance or  *)
(* tmana.scores_extract_particles on arbitrary real-valued input.  The      *)
(* driver logs, computed by brute force (no KD-tree, no library helper):    *)
(*   n        number of candidate points (particles / supra-threshold voxels)*)
(*   grp[i]   group id,   rank[i] strict rank by the metric (1 = best)       *)
(*   nbr[i]   the points closer than the radius to i (any group)             *)
(*   kept[i]  1 iff point i is in the output,   extra = number of output     *)
(*            rows that are no input point or occur twice                    *)
(* and for peak extraction the payload of each output peak.  The predicate  *)
(* is Suppress!Valid, re-stated over adjacency lists so that it is linear   *)
(* in the number of close pairs.                                            *)
(***************************************************************************)
EXTENDS Integers, Sequences, FiniteSets, TLC, Json, IOUtils

Traces == ndJsonDeserialize(IOEnv.TRACE_FILE)

VARIABLES tid, phase, ok, clause
vars == <<tid, phase, ok, clause>>

T == Traces[tid]
Pts == 1..T.n

Separated == \A p \in Pts : T.kept[p] = 1 =>
                \A k \in DOMAIN T.nbr[p] : LET q == T.nbr[p][k] IN ~(T.kept[q] = 1 /\ T.grp[q] = T.grp[p])

Dominated == \A p \in Pts : T.kept[p] = 0 =>
                \E k \in DOMAIN T.nbr[p] : LET q == T.nbr[p][k] IN
                    T.kept[q] = 1 /\ T.grp[q] = T.grp[p] /\ T.rank[q] <= T.rank[p]

WellFormed == /\ Len(T.grp) = T.n /\ Len(T.rank) = T.n /\ Len(T.nbr) = T.n /\ Len(T.kept) = T.n
              /\ \A p \in Pts : T.rank[p] \in Pts   \* dense ranks by the metric; equal metric values share a rank (score ties are
                                                  \* inside the property: "an equal or better score"), peak maps are plateau-free
              /\ \A p \in Pts : \A k \in DOMAIN T.nbr[p] : T.nbr[p][k] \in Pts /\ T.nbr[p][k] # p

\* peak payload: every output peak carries its voxel's score, and the angles its angle-map entry points to
\*   peaks[j] = [score, vscore, ang, aidx]   (scores x1e6, angles x1e3)
ExpAngles(j) == LET row == T.alist[T.peaks[j].aidx - T.numbering + 1]
                IN  IF T.order = "zzx" THEN <<row[1], row[3], row[2]>> ELSE row     \* zzx files hold phi, psi, theta
Payload == T.kind = "peaks" =>
              \A j \in DOMAIN T.peaks :
                  /\ T.peaks[j].score = T.peaks[j].vscore
                  /\ T.peaks[j].aidx - T.numbering + 1 \in DOMAIN T.alist
                  /\ T.peaks[j].ang = ExpAngles(j)

AboveThreshold == T.kind = "peaks" => \A j \in DOMAIN T.peaks : T.peaks[j].above = 1

Failing == IF ~WellFormed THEN "malformed_trace"
           ELSE IF T.extra # 0 THEN "C07_OutputSubset"
           ELSE IF ~Separated THEN "C07_Separated"
           ELSE IF ~Dominated THEN "C07_Dominated"
           ELSE IF ~AboveThreshold THEN "C07_PeakAboveThreshold"
           ELSE IF ~Payload THEN "C07_PeakPayload"
           ELSE "none"

TraceInit == tid \in 1..Len(Traces) /\ phase = "called" /\ ok = TRUE /\ clause = "none"

\* one step per trace: the observed result of the call is judged by the predicate
TraceNext == /\ phase = "called"
             /\ phase' = "judged"
             /\ LET c == Failing IN ok' = (c = "none") /\ clause' = c
             /\ UNCHANGED tid

TraceSpec == TraceInit /\ [][TraceNext]_vars

Report == \/ phase = "called"
          \/ PrintT(<<"VERDICT", ToJson([tid |-> tid, ok |-> ok, clause |-> clause])>>)
=============================================================================

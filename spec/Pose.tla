-------------------------------- MODULE Pose --------------------------------
(***************************************************************************)
(* C05 - pose book-keeping of a particle list.                             *)
(*                                                                         *)
(* A list is a sequence of poses.  Positions and shifts live on the 1/8    *)
(* voxel lattice (TLA+ integers, U = 8 units per voxel), orientations in   *)
(* the cube group.  Each public Motl call that the property names is one   *)
(* action.  The property clauses are action properties over these actions. *)
(***************************************************************************)
EXTENDS Integers, Sequences, FiniteSets, TLC, Json, Cube

CONSTANTS
    InitPoses,      \* set of admissible initial lists (sequences of poses)
    Shifts,         \* set of shift vectors (1/8 voxel units) offered to ShiftPositions
    Factors,        \* set of scale factors <<num, den>>
    DimZ,           \* function tomo -> z dimension in voxels
    Rots,           \* subset of Cube!All offered to ApplyRotation
    MaxDepth,       \* bound on the history length
    EmitMode        \* "none" | "tr" (every transition) | "hist" (complete behaviours)

VARIABLES ps, op, d, hist

vars == <<ps, op, d, hist>>
U == 8

Abs(n) == IF n < 0 THEN -n ELSE n

Complete(p) == [i \in 1..3 |-> p.x[i] + p.s[i]]

\* round to the nearest multiple of U, halves away from zero (decimal.ROUND_HALF_UP)
RoundHalfAway(c) == LET a == Abs(c)
                        q == (2 * a + U) \div (2 * U)
                    IN  IF c < 0 THEN -(q * U) ELSE q * U

-----------------------------------------------------------------------------
\* the operations, as functions on one pose

UpdateP(p) == LET c == Complete(p)
                  xi == [i \in 1..3 |-> RoundHalfAway(c[i])]
              IN  [p EXCEPT !.x = xi, !.s = [i \in 1..3 |-> c[i] - xi[i]]]

Divisible(p, f) == \A i \in 1..3 : (p.x[i] * f[1]) % f[2] = 0 /\ (p.s[i] * f[1]) % f[2] = 0

ScaleP(p, f) == [p EXCEPT !.x = [i \in 1..3 |-> (p.x[i] * f[1]) \div f[2]],
                          !.s = [i \in 1..3 |-> (p.s[i] * f[1]) \div f[2]]]

ShiftP(p, v) == [p EXCEPT !.s = [i \in 1..3 |-> p.s[i] + Apply(p.R, v)[i]]]

RotateP(p, Q) == [p EXCEPT !.R = Mul(p.R, Q)]

\* kind: "none" (orientation only), "single" (one 1x3 dimension for all), "table" (per tomogram)
FlipDim(p, kind) == IF kind = "single" THEN DimZ[CHOOSE t \in DOMAIN DimZ : \A u \in DOMAIN DimZ : t <= u]
                    ELSE DimZ[p.t]

FlipP(p, kind) == IF kind = "none" THEN [p EXCEPT !.R = MirrorZ(p.R)]
                  ELSE [p EXCEPT !.R = MirrorZ(p.R),
                                 !.x = [p.x EXCEPT ![3] = FlipDim(p, kind) * U + U - p.x[3]],
                                 !.s = [p.s EXCEPT ![3] = -p.s[3]]]

MapPs(F(_)) == [k \in DOMAIN ps |-> F(ps[k])]

-----------------------------------------------------------------------------
\* JSON projection handed to the drivers
PJ(q) == [k \in DOMAIN q |-> [x |-> q[k].x, s |-> q[k].s, r |-> Code(q[k].R), t |-> q[k].t]]

Step(o, q) == /\ ps' = q
              /\ op' = o
              /\ d' = d + 1
              /\ hist' = IF EmitMode = "hist" THEN Append(hist, [op |-> o, post |-> PJ(q)]) ELSE hist

UpdateCoordinates == LET F(p) == UpdateP(p) IN Step([name |-> "update"], MapPs(F))

Scale(f) == /\ \A k \in DOMAIN ps : Divisible(ps[k], f)
            /\ LET F(p) == ScaleP(p, f) IN Step([name |-> "scale", num |-> f[1], den |-> f[2]], MapPs(F))

ShiftPositions(v) == LET F(p) == ShiftP(p, v) IN Step([name |-> "shift", v |-> v], MapPs(F))

ApplyRotation(Q) == LET F(p) == RotateP(p, Q) IN Step([name |-> "rotate", q |-> Code(Q)], MapPs(F))

Flip(kind) == LET F(p) == FlipP(p, kind) IN Step([name |-> "flip", kind |-> kind], MapPs(F))

Init == /\ ps \in InitPoses
        /\ op = [name |-> "init"]
        /\ d = 0
        /\ hist = IF EmitMode = "hist" THEN <<[op |-> [name |-> "init"], post |-> PJ(ps)]>> ELSE <<>>

Next == /\ d < MaxDepth
        /\ \/ UpdateCoordinates
           \/ \E f \in Factors : Scale(f)
           \/ \E v \in Shifts : ShiftPositions(v)
           \/ \E Q \in Rots : ApplyRotation(Q)
           \/ \E kind \in {"none", "single", "table"} : Flip(kind)

Spec == Init /\ [][Next]_vars

-----------------------------------------------------------------------------
\* Property clauses (C05).  Each is an action property: it constrains every step of the named kind.

OpIs(n) == op'.name = n

C05_UpdateKeepsComplete ==
    [][OpIs("update") => \A k \in DOMAIN ps :
          /\ Complete(ps'[k]) = Complete(ps[k])
          /\ \A i \in 1..3 : ps'[k].x[i] % U = 0 /\ 2 * Abs(ps'[k].s[i]) <= U
          /\ ps'[k].R = ps[k].R]_vars

C05_ScaleMultiplies ==
    [][OpIs("scale") => \A k \in DOMAIN ps : \A i \in 1..3 :
          Complete(ps'[k])[i] * op'.den = Complete(ps[k])[i] * op'.num /\ ps'[k].R = ps[k].R]_vars

C05_ShiftMovesByOwnOrientation ==
    [][OpIs("shift") => \A k \in DOMAIN ps :
          /\ \A i \in 1..3 : Complete(ps'[k])[i] = Complete(ps[k])[i] + Apply(ps[k].R, op'.v)[i]
          /\ ps'[k].R = ps[k].R]_vars

C05_RotateComposes ==
    [][OpIs("rotate") => \A k \in DOMAIN ps :
          /\ ps'[k].R = Mul(ps[k].R, FromCode(op'.q))
          /\ Complete(ps'[k]) = Complete(ps[k])]_vars

C05_FlipMirrors ==
    [][OpIs("flip") => \A k \in DOMAIN ps :
          /\ ps'[k].R = MirrorZ(ps[k].R)
          /\ Complete(ps'[k])[1] = Complete(ps[k])[1] /\ Complete(ps'[k])[2] = Complete(ps[k])[2]
          /\ op'.kind = "none" => Complete(ps'[k]) = Complete(ps[k])
          /\ op'.kind # "none" => Complete(ps'[k])[3] = FlipDim(ps[k], op'.kind) * U + U - Complete(ps[k])[3]]_vars

\* composition laws, stated on every reachable state (they are what makes histories compose)
C05_ShiftAdditive ==
    \A k \in DOMAIN ps : \A v1, v2 \in Shifts :
        ShiftP(ShiftP(ps[k], v1), v2) = ShiftP(ps[k], [i \in 1..3 |-> v1[i] + v2[i]])

\* (associativity over the whole group is an ASSUME of Cube.tla; here it is instantiated on the generators, per state)
C05_RotationAssociates ==
    \A k \in DOMAIN ps : \A Q1, Q2 \in {Rz1, Rx1, Ry1} :
        RotateP(RotateP(ps[k], Q1), Q2) = RotateP(ps[k], Mul(Q1, Q2))

C05_FlipInvolution ==
    \A k \in DOMAIN ps : \A kind \in {"none", "single", "table"} :
        LET q == FlipP(FlipP(ps[k], kind), kind) IN Complete(q) = Complete(ps[k]) /\ q.R = ps[k].R

C05_NothingAppearsOrVanishes == [][Len(ps') = Len(ps) /\ \A k \in DOMAIN ps : ps'[k].t = ps[k].t]_vars

TypeOK == /\ \A k \in DOMAIN ps : ps[k].R \in All
          /\ d \in 0..MaxDepth

-----------------------------------------------------------------------------
\* emission
EmitTR == \/ EmitMode # "tr"
          \/ PrintT(ToJson([d |-> d, pre |-> PJ(ps), op |-> op', post |-> PJ(ps')]))

EmitHist == \/ EmitMode # "hist"
            \/ d < MaxDepth
            \/ PrintT(ToJson([hist |-> hist]))

View == <<ps, d>>
=============================================================================

---------------------------- MODULE MC_StarFull ----------------------------
(* The larger exhaustive scope of MC_Star (kept in a module of its own: TLC evaluates every constant-level
   definition of the root module at start-up, and these sets take a while to build). *)
EXTENDS MC_Star

FullDocs == DocsOver({T1, Tm25, Tab, Tdatax}, 2) \cup DocsOver({T1em3, Ta1, T12ab}, 2)
FullLays == LaySet(GPre, GBetween, GAfterName, GAfterLabels, GPost, GSuffix, GSeps, GLeadTrail, BOOLEAN, BOOLEAN)
FullInit == InitOver(FullDocs, FullLays)
=============================================================================

---------------------------- MODULE MC_EmMotlIO ----------------------------
(* Model-checking configurations of EmMotlIO.tla:                                                   *)
(*   small  - 4 abstract fields, all 24 column orders, 1..2 particles, every placement of <= 2 holes *)
(*   lift   - the 20 real fields; the 24 orders of the small scope lifted onto 4 column positions of  *)
(*            a base order chosen by the seed (the other 16 columns ride along)                       *)
(*   cases  - the 20 real fields; (column order, N, holes) drawn by the driver's seeded generator      *)
(*            and handed over in a JSON file; TLC computes the file and the loaded table for each      *)
(*   sim    - the 20 real fields, random walks of swap / write / load / adopt from seeded small tables         *)
EXTENDS EmMotlIO, IOUtils

Canon4 == <<"a", "b", "c", "d">>
Canon20 == <<"score", "geom1", "geom2", "subtomo_id", "tomo_id", "object_id", "subtomo_mean", "x", "y", "z",
             "shift_x", "shift_y", "shift_z", "geom3", "geom4", "geom5", "phi", "psi", "theta", "class">>

CanonIdx(f) == CHOOSE k \in 1..W : Canon[k] = f

\* the table whose cell (row r, field Canon[k]) holds the token (r-1)*W + k - unique per cell, so that any
\* misplacement is visible - laid out in column order `order`, with holes at the cells <<r, k>> of `holes`
MkTable(order, n, holes) ==
    [order |-> order,
     cells |-> [r \in 1..n |-> [i \in 1..W |->
                   LET k == CanonIdx(order[i]) IN IF <<r, k>> \in holes THEN Hole ELSE Raw((r - 1) * W + k)]]]

Bij(n) == {p \in [1..n -> 1..n] : \A i, j \in 1..n : i # j => p[i] # p[j]}
UpTo2(S) == {H \in SUBSET S : Cardinality(H) <= 2}

\* ---- small
\* (TLC evaluates constant definitions eagerly: the guard keeps W! orders from being enumerated for the 20 fields)
AllOrders == IF W > 5 THEN {} ELSE {[i \in 1..W |-> Canon[p[i]]] : p \in Bij(W)}
SmallInit == UNION {{MkTable(o, n, H) : H \in UpTo2((1..n) \X (1..W))} : o \in AllOrders, n \in 1..2}
DeriveSmallInit == IF W > 5 THEN {} ELSE {MkTable(o, n, H) : o \in {Canon, <<"d", "b", "a", "c">>}, n \in 1..2, H \in {{}, {<<1, 1>>}, {<<1, 4>>, <<1, 2>>}}}
TinyInit == {MkTable(<<"d", "c", "b", "a">>, 1, {})}
AllPos == 1..W

\* ---- parameters from the driver
Params == JsonDeserialize(IOEnv.C01_PARAMS)
Base == Params.base           \* a permutation of the 20 fields
LPos == Params.pos            \* 4 distinct column positions
ToSet(s) == {s[i] : i \in DOMAIN s}

\* ---- lift
LiftOrders == {[i \in 1..W |-> IF \E a \in 1..4 : LPos[a] = i
                               THEN Base[LPos[p[CHOOSE a \in 1..4 : LPos[a] = i]]] ELSE Base[i]] : p \in Bij(4)}
LiftCells(n) == {<<r, CanonIdx(Base[LPos[a]])>> : r \in 1..n, a \in 1..4}
LiftExtra(n) == {<<h[1], h[2]>> : h \in {x \in ToSet(Params.extra_holes) : x[1] <= n}}
UpToK(S, K) == {H \in SUBSET S : Cardinality(H) <= K}
LiftInit == UNION {{MkTable(o, n, H \cup LiftExtra(n)) : H \in UpToK(LiftCells(n), IF n = 1 THEN 2 ELSE Params.lift_k2)} :
                       o \in LiftOrders, n \in 1..2}
LiftPos == ToSet(LPos)

\* ---- cases
CaseTable(c) == MkTable(c.order, c.n, {<<h[1], h[2]>> : h \in ToSet(c.holes)})
CaseInit == {CaseTable(Params.cases[i]) : i \in DOMAIN Params.cases}

\* ---- sim
SimInit == {CaseTable(Params.sim_cases[i]) : i \in DOMAIN Params.sim_cases}
SimPos == ToSet(Params.sim_pos)

=============================================================================

----------------------------- MODULE MC_Chains -----------------------------
(* Model-checking configurations of Chains.tla: instance families for the reference builder and the algorithm model. *)
EXTENDS Chains, IOUtils

CONSTANTS NPart,      \* number of particles
          MaxLinks,   \* bound on the number of linked pairs
          Family      \* "all" | "skeleton" | "skeleton2" | "file" | "appendixC6" | "none" (only that one is evaluated)

\* the algorithm as it is in the tree (after 1437bd7 and 00e911b) and the earlier designs, kept as negative controls
Current == {"tailcut-order", "fresh-head-id"}
NoRepair == {}
OnlyTailcutOrder == {"tailcut-order"}
OnlyFreshHeadId == {"fresh-head-id"}

Pairs(n) == { pq \in (1..n) \X (1..n) : pq[1] # pq[2] }

\* all strict distance orders of all link sets with at most k pairs: sequences over P without repetition
RECURSIVE InjSeqs(_, _)
InjSeqs(P, k) == IF k = 0 THEN { <<>> }
                 ELSE LET shorter == InjSeqs(P, k - 1)
                      IN  shorter \cup UNION { { Append(s, e) : e \in P \ RangeOf(s) } :
                                                 s \in { x \in shorter : Len(x) = k - 1 } }

NoRepeat(x) == \A a, b \in DOMAIN x : a # b => x[a] # x[b]

AllInstances(dummy) == { [n |-> NPart, links |-> s] : s \in { x \in InjSeqs(Pairs(NPart), MaxLinks) : NoRepeat(x) } }

\* the six-particle configuration behind DESIGN Appendix C (head cut, stale end joined, tail cut renumbered in row
\* order) and every instance over its candidate pairs: all subsets, all distance orders
SkeletonPairs == { <<4, 2>>, <<1, 2>>, <<5, 3>>, <<1, 6>>, <<1, 5>>, <<6, 4>>, <<3, 6>> }
SkeletonInstances(dummy) == { [n |-> 6, links |-> s] : s \in { x \in InjSeqs(SkeletonPairs, MaxLinks) : NoRepeat(x) } }

\* the six-particle configuration TLC's random simulation found for the second defect (a join on both sides that cuts
\* a tail and a head gives both cut pieces the same object number) and every instance over its six pairs
Skeleton2Pairs == { <<5, 6>>, <<2, 6>>, <<1, 6>>, <<1, 2>>, <<1, 5>>, <<1, 4>> }
Skeleton2Instances(dummy) == { [n |-> 6, links |-> s] : s \in { x \in InjSeqs(Skeleton2Pairs, MaxLinks) : NoRepeat(x) } }

\* five particles: a two-member new chain whose entry-side and exit-side back connections both hit the same orphaned
\* particle (1 -> 2 traced, 3 put in front of 2 cuts 1 off, then 4 -> 5 with 1 -> 4 and 5 -> 1): only the closer of the two
\* connections may be made; every instance over these pairs
Skeleton3Pairs == { <<3, 2>>, <<4, 5>>, <<5, 1>>, <<1, 2>>, <<1, 4>>, <<2, 4>> }
Skeleton3Instances(dummy) == { [n |-> 5, links |-> s] : s \in { x \in InjSeqs(Skeleton3Pairs, MaxLinks) : NoRepeat(x) } }

\* instances handed over by the driver (classification of failing cases): ndjson records {n, links}
FileInstances(dummy) == LET recs == ndJsonDeserialize(IOEnv.INSTANCE_FILE)
                        IN  { [n |-> recs[k].n, links |-> recs[k].links] : k \in DOMAIN recs }

AppendixC6 == { [n |-> 6, links |-> << <<4, 2>>, <<1, 2>>, <<5, 3>>, <<1, 6>>, <<1, 5>> >>] }

\* The same family as AllInstances without ever building the set: the instance is grown link by link (nxt = 0 marks
\* the building phase; any unused pair may be the next-closest one), then the algorithm runs on it.
BuildInit == /\ inst = [n |-> NPart, links |-> <<>>]
             /\ tr = <<>> /\ done = {} /\ nxt = 0 /\ cc = 1 /\ err = "" /\ log = <<>>
BuildNext == \/ /\ nxt = 0
                /\ Len(inst.links) < MaxLinks
                /\ \E e \in Pairs(NPart) \ RangeOf(inst.links) : inst' = [inst EXCEPT !.links = Append(@, e)]
                /\ UNCHANGED <<tr, done, nxt, cc, err, log>>
             \/ /\ nxt = 0
                /\ nxt' = 1
                /\ UNCHANGED <<inst, tr, done, cc, err, log>>
             \/ (nxt > 0 /\ ANext)
BuildSpec == BuildInit /\ [][BuildNext]_vars

\* for random simulation: the instance always gets MaxLinks links before the algorithm starts
SimNext == \/ /\ nxt = 0
              /\ Len(inst.links) < MaxLinks
              /\ \E e \in Pairs(NPart) \ RangeOf(inst.links) : inst' = [inst EXCEPT !.links = Append(@, e)]
              /\ UNCHANGED <<tr, done, nxt, cc, err, log>>
           \/ /\ nxt = 0
              /\ Len(inst.links) = MaxLinks
              /\ nxt' = 1
              /\ UNCHANGED <<inst, tr, done, cc, err, log>>
           \/ (nxt > 0 /\ ANext)
SimSpec == BuildInit /\ [][SimNext]_vars

DoubleJoin6 == { [n |-> 6, links |-> << <<5, 6>>, <<2, 6>>, <<1, 6>>, <<1, 5>>, <<1, 4>>, <<1, 2>> >>] }

FamilyInstances == CASE Family = "all"        -> AllInstances(0)
                     [] Family = "skeleton"   -> SkeletonInstances(0)
                     [] Family = "skeleton2"  -> Skeleton2Instances(0)
                     [] Family = "skeleton3"  -> Skeleton3Instances(0)
                     [] Family = "file"       -> FileInstances(0)
                     [] Family = "appendixC6" -> AppendixC6
                     [] Family = "doublejoin6" -> DoubleJoin6
                     [] OTHER                 -> {}
=============================================================================

-------------------------- MODULE MC_StopgapConv --------------------------
(* Small exhaustive scope of StopgapConv.tla: lists of one or two particles, even / odd / repeated and
   non-sequential subtomogram numbers, positions and shifts on the 1/8 lattice of either sign (no exact half-voxel
   ties: their rounding direction belongs to C05), a distinct value token in every other field. *)
EXTENDS StopgapConv

P(sid, x, s, base) ==
    [score |-> base + 1, subtomo_id |-> sid, tomo_id |-> base + 2, object_id |-> base + 3,
     x |-> x[1], y |-> x[2], z |-> x[3], shift_x |-> s[1], shift_y |-> s[2], shift_z |-> s[3],
     phi |-> base + 4, psi |-> base + 5, theta |-> base + 6, class |-> base + 7]

XSet == {<<16, 24, 40>>, <<-16, 0, 8>>}
SSet == {<<0, 0, 0>>, <<3, -5, 11>>, <<-3, 20, -13>>}
\* ... plus a particle at a non-integer position with all-zero shifts (update_coord must still round it)
First == {P(sid, x, s, 0) : sid \in {2, 5, 12}, x \in XSet, s \in SSet} \cup {P(sid, <<19, -5, 42>>, <<0, 0, 0>>, 0) : sid \in {2, 5, 12}}
         \cup {P(0, <<16, 24, 40>>, s, 0) : s \in SSet}          \* the subtomogram number 0 (even: half-set A)
Second == {P(sid, x, s, 7) : sid \in {5, 4, 1}, x \in XSet, s \in SSet}
SmallLists == {<<a>> : a \in First} \cup {<<a, b>> : a \in First, b \in Second}
=============================================================================

----------------------------- MODULE MC_RotGeom -----------------------------
(* Model-checking scopes of RotGeom.tla. *)
EXTENDS RotGeom

\* all 576 ordered pairs of cube orientations
MCPairs == All \X All

\* the 64 quarter-turn Euler triples enumerate the group (with repetitions); batches walk through them with a stride
Tri(m) == FromZXZ(m % 4, (m \div 4) % 4, (m \div 16) % 4)
Batch(k, s, n) == [i \in 1..n |-> Tri((k + (i - 1) * s) % 64)]

\* batches of 1..6 orientations: 24 offsets x 4 strides x 6 lengths, plus every single orientation
MCBatches == { Batch(k, s, n) : k \in 0..23, s \in {1, 5, 7, 11}, n \in 1..6 } \cup { <<r>> : r \in All }
\* batch sizes around typical internal block sizes (250 / 251, 500, 1000) and a batch that repeats one orientation
MCBigQuick == { Batch(3, 7, 100), Batch(1, 5, 250), Batch(2, 3, 251), Batch(0, 11, 500), Batch(5, 7, 1000), Batch(9, 0, 3), Batch(2, 0, 251) }
MCBigThorough == { Batch(k, s, n) : k \in {0, 9}, s \in {1, 7, 13}, n \in {100, 257, 500} }
MCBatchesQuick == MCBatches \cup MCBigQuick
MCBatchesThorough == MCBatches \cup MCBigThorough \cup MCBigQuick

SignedPermsOf(v) == { [i \in 1..3 |-> s[i] * v[p[i]]] : p \in Perms, s \in [1..3 -> {-1, 1}] }
Times(k, v) == [i \in 1..3 |-> k * v[i]]

\* normals in units of 1/8: axis-aligned with lengths 1, 2, 7/8 (incl. +-z); rational unit directions
\* (1,2,2)/3, (2,3,6)/7, (0,3,4)/5 with all signed permutations, lengths 3/8, 7/8, 5/8 and 3, 7, 5
MCAxisNormals == UNION { SignedPermsOf(<<0, 0, k>>) : k \in {8, 16, 7} }
MCRationalNormals == UNION { SignedPermsOf(Times(k, v)) : k \in {1, 8}, v \in {<<1, 2, 2>>, <<2, 3, 6>>, <<0, 3, 4>>} }
MCNormals == MCAxisNormals \cup MCRationalNormals

\* the one-state scope used for the constant-level laws
LawPairs == { <<Id, Id>> }
Empty == {}
=============================================================================

----------------------------- MODULE RelionConv -----------------------------
(***************************************************************************)
(* C03 - particle list <-> RELION 3.0 / 3.1 / 4.0 particle table.          *)
(*                                                                         *)
(* Particle  [x, s : lattice^3 (1/U voxel), e : zxz quarter-turn counts    *)
(*            <<phi, theta, psi>>, tomo, sid, cls]; its orientation is     *)
(*            Cube!FromZXZ(e) (scipy extrinsic "zxz", cryoCAT convention).  *)
(* RELION    [coord : lattice^3, origin : three rationals <<n, d>> in the   *)
(*            unit of the version (pixels for 3.0, Angstrom for >= 3.1),   *)
(*            M : the rotation of the ZYZ angles (Cube element, as Code),  *)
(*            tomo, sid, subset, cls] plus the names generated from a      *)
(*            format (byte sequences).                                     *)
(* Version is 30 / 31 / 40, the pixel size a rational <<num, den>> (A/px). *)
(* Binning is 1 throughout (scope decision, DESIGN C03).                   *)
(*                                                                         *)
(* Actions  DoExport (list -> RELION table), DoReimport (that table back), *)
(*          DoImport (independently given RELION table -> list),           *)
(*          DoListOps (rows of an imported list removed / re-ordered),     *)
(*          DoExportOrig (export with use_original_entries: every row      *)
(*          keeps the original names of ITS particle), DoReimportOrig.     *)
(***************************************************************************)
EXTENDS Integers, Sequences, FiniteSets, TLC, Json, Cube

CONSTANTS InitCases,     \* set of cases [mode, v, px, fmt, parts | rin]
          EmitMode       \* "none" | "tr"

VARIABLES cs, rel, back, pc, op, cid,
          live           \* "orig" cases: indices of the imported rows that are still in the list, in list order
vars == <<cs, rel, back, pc, op, cid, live>>

U == 8

-----------------------------------------------------------------------------
\* names:  tomogram name = tpre . pad(tomo, tpad) . tpost
\*         particle name = spre . pad(tomo, spadx) . smid . pad(sid, spady) . spost     (spadx = 0: no tomogram part)
P10 == <<1000000, 100000, 10000, 1000, 100, 10, 1>>
\* decimal digits of n >= 0 (n < 10^7), zero-padded to at least w places   (str(int(n)).zfill(w))
Pad(n, w) == LET all == [i \in 1..7 |-> 48 + ((n \div P10[i]) % 10)]
                 nz == {i \in 1..7 : all[i] # 48}
                 first == IF nz = {} THEN 7 ELSE CHOOSE i \in nz : \A j \in nz : i <= j
                 from == IF 8 - w < first THEN 8 - w ELSE first
             IN  SubSeq(all, IF from < 1 THEN 1 ELSE from, 7)

TomoName(f, t) == f.tpre \o Pad(t, f.tpad) \o f.tpost
PartName(f, t, sid) == f.spre \o (IF f.spadx = 0 THEN <<>> ELSE Pad(t, f.spadx)) \o f.smid \o Pad(sid, f.spady) \o f.spost

\* reading numbers back out of names (the convention stated independently of how the names are built)
IsDigit(b) == b \in 48..57
LastComponent(s) == LET S == {i \in 1..Len(s) : s[i] = 47}
                    IN  IF S = {} THEN s ELSE SubSeq(s, (CHOOSE i \in S : \A j \in S : i >= j) + 1, Len(s))
FirstComponent(s) == LET S == {i \in 1..Len(s) : s[i] = 47}          \* everything before the last '/'
                     IN  IF S = {} THEN s ELSE SubSeq(s, 1, (CHOOSE i \in S : \A j \in S : i >= j) - 1)
RunStarts(s) == {i \in 1..Len(s) : IsDigit(s[i]) /\ (i = 1 \/ ~IsDigit(s[i - 1]))}
RunEnd(s, a) == LET E == {j \in a..Len(s) : IsDigit(s[j]) /\ (j = Len(s) \/ ~IsDigit(s[j + 1]))}
                IN  CHOOSE j \in E : \A k \in E : j <= k
NatOf(d) == LET n == Len(d)  v(i) == IF i <= n THEN (d[i] - 48) * P10[7 - n + i] ELSE 0
            IN  v(1) + v(2) + v(3) + v(4) + v(5) + v(6) + v(7)
\* k-th run of digits of s, as a number
Run(s, k) == LET st == RunStarts(s)
                 a == CHOOSE i \in st : Cardinality({j \in st : j < i}) = k - 1
             IN  NatOf(SubSeq(s, a, RunEnd(s, a)))
ParseTomo(name) == Run(LastComponent(name), 1)
ParseSid(v, name) == IF v >= 40 THEN NatOf(LastComponent(name)) ELSE Run(LastComponent(name), 2)

-----------------------------------------------------------------------------
\* list operations performed on the live object between construction and export (cs.hist, at most two):
\*   [op |-> "remove", cls |-> c, idx |-> <<>>]     remove_feature("class", c)
\*   [op |-> "select", cls |-> 0, idx |-> <<i1, ...>>]  the rows at these positions, in this order (df[mask], sort_values, iloc)
\* They change the number of rows and leave non-default row labels behind; an export is positional on the surviving rows.
ApplyOp(ps, h) == IF h.op = "remove" THEN SelectSeq(ps, LAMBDA p : p.cls # h.cls)
                  ELSE [k \in 1..Len(h.idx) |-> ps[h.idx[k]]]
ApplyHist(ps, hist) == IF Len(hist) = 0 THEN ps
                       ELSE IF Len(hist) = 1 THEN ApplyOp(ps, hist[1])
                       ELSE ApplyOp(ApplyOp(ps, hist[1]), hist[2])

Rot(p) == FromZXZ(p.e[1], p.e[2], p.e[3])
Complete(p) == [i \in 1..3 |-> p.x[i] + p.s[i]]

\* export of one particle
ExportP(p, f) ==
    [coord |-> Complete(p), origin |-> <<<<0, 1>>, <<0, 1>>, <<0, 1>>>>, M |-> Code(Inv(Rot(p))),
     tomo |-> p.tomo, sid |-> p.sid, subset |-> IF p.sid % 2 = 1 THEN 1 ELSE 2, cls |-> p.cls,
     tomoName |-> IF f.named THEN TomoName(f, p.tomo) ELSE <<>>,
     partName |-> IF f.named THEN PartName(f, p.tomo, p.sid) ELSE <<>>]

\* shift (lattice units) encoded by one origin component <<n, d>>: -origin, divided by the pixel size from 3.1 on
ShiftNum(o, v, px) == IF v >= 31 THEN -(o[1] * px[2] * U) ELSE -(o[1] * U)
ShiftDen(o, v, px) == IF v >= 31 THEN o[2] * px[1] ELSE o[2]
OnLattice(o, v, px) == ShiftNum(o, v, px) % ShiftDen(o, v, px) = 0
ShiftOf(o, v, px) == ShiftNum(o, v, px) \div ShiftDen(o, v, px)

\* import of one RELION row (the subtomogram number is kept in geom3; the numbering itself is constrained by IdsOK)
ImportR(r, v, px) ==
    [x |-> r.coord, s |-> [i \in 1..3 |-> ShiftOf(r.origin[i], v, px)], R |-> Code(Inv(FromCode(r.M))),
     tomo |-> r.tomo, cls |-> r.cls, geom3 |-> r.sid]

\* admissible subtomogram numbering of an imported list
IdsOK(ids, subsets) ==
    /\ Len(ids) = Len(subsets)
    /\ \A i, j \in 1..Len(ids) : i # j => ids[i] # ids[j]
    /\ Cardinality({subsets[i] : i \in 1..Len(subsets)}) = 2 => \A i \in 1..Len(ids) : (ids[i] % 2 = 1) <=> (subsets[i] = 1)

-----------------------------------------------------------------------------
\* the list the export sees
Live == ApplyHist(cs.parts, cs.hist)

Init == cs \in InitCases /\ rel = <<>> /\ back = <<>> /\ pc = "start" /\ op = "init" /\ cid = 0 /\ live = <<>>

DoExport == /\ pc = "start" /\ cs.mode = "export"
            /\ Len(Live) >= 1
            /\ rel' = [i \in 1..Len(Live) |-> ExportP(Live[i], cs.fmt)]
            /\ pc' = "exported" /\ op' = "export" /\ UNCHANGED <<cs, back, cid, live>>

DoReimport == /\ pc = "exported"
              /\ back' = [i \in 1..Len(rel) |-> ImportR(rel[i], cs.v, cs.px)]
              /\ pc' = "reimported" /\ op' = "reimport" /\ UNCHANGED <<cs, rel, cid, live>>

\* the pixel size of row i: a quantity that is usually the same for the whole table but belongs to the particle - a merged
\* list carries it per row (rlnPixelSize column, or one value per optics group): cs.pxs, when the case has it
PxOf(i) == IF "pxs" \in DOMAIN cs THEN cs.pxs[i] ELSE cs.px

DoImport == /\ pc = "start" /\ cs.mode \in {"import", "orig"}
            /\ \A i \in 1..Len(cs.rin) : \A k \in 1..3 : OnLattice(cs.rin[i].origin[k], cs.v, PxOf(i))
            /\ back' = [i \in 1..Len(cs.rin) |-> ImportR(cs.rin[i], cs.v, PxOf(i))]
            /\ pc' = "imported" /\ op' = "import" /\ UNCHANGED <<cs, rel, cid, live>>

\* "orig" cases: the imported list is cleaned / re-ordered (cs.hist: remove by class, select / permute rows) ...
Annot == [i \in 1..Len(cs.rin) |-> [cls |-> cs.rin[i].cls, k |-> i]]
DoListOps == /\ pc = "imported" /\ cs.mode = "orig"
             /\ LET a == ApplyHist(Annot, cs.hist) IN Len(a) >= 1 /\ live' = [j \in 1..Len(a) |-> a[j].k]
             /\ pc' = "reordered" /\ op' = "listops" /\ UNCHANGED <<cs, rel, back, cid>>

\* ... and exported with use_original_entries: row j of the table is the original row of the j-th particle of the list (its
\* names, numbers, half-set) with the particle's current pose (complete position, zero origins, same rotation) and class
ExportOrigRow(r, b, f) ==
    [coord |-> [i \in 1..3 |-> b.x[i] + b.s[i]], origin |-> <<<<0, 1>>, <<0, 1>>, <<0, 1>>>>, M |-> Code(Inv(FromCode(b.R))),
     tomo |-> r.tomo, sid |-> r.sid, subset |-> r.subset, cls |-> b.cls,
     tomoName |-> IF f.named THEN TomoName(f, r.tomo) ELSE <<>>,
     partName |-> IF f.named THEN PartName(f, r.tomo, r.sid) ELSE <<>>]
DoExportOrig == /\ pc = "reordered"
                /\ rel' = [j \in 1..Len(live) |-> ExportOrigRow(cs.rin[live[j]], back[live[j]], cs.fmt)]
                /\ pc' = "oexported" /\ op' = "exportorig" /\ UNCHANGED <<cs, back, cid, live>>
DoReimportOrig == /\ pc = "oexported"
                  /\ back' = [j \in 1..Len(rel) |-> ImportR(rel[j], cs.v, cs.px)]
                  /\ pc' = "oreimported" /\ op' = "reimportorig" /\ UNCHANGED <<cs, rel, cid, live>>

Next == DoExport \/ DoReimport \/ DoImport \/ DoListOps \/ DoExportOrig \/ DoReimportOrig
Spec == Init /\ [][Next]_vars

-----------------------------------------------------------------------------
\* Property clauses, in the property's words

C03_ExportPose ==
    pc \in {"exported", "reimported"} =>
        /\ Len(rel) = Len(Live)
        /\ \A i \in 1..Len(rel) :
              /\ \A k \in 1..3 : rel[i].coord[k] = Live[i].x[k] + Live[i].s[k] /\ rel[i].origin[k][1] = 0
              /\ Mul(FromCode(rel[i].M), Rot(Live[i])) = Id

C03_ImportPose ==
    pc = "imported" =>
        \A i \in 1..Len(back) :
            /\ back[i].x = cs.rin[i].coord
            /\ \A k \in 1..3 :          \* shift = -origin (/ px from 3.1 on):  shift * den = -origin_num * U  (* px)
                 LET o == cs.rin[i].origin[k]
                 IN  IF cs.v >= 31 THEN back[i].s[k] * o[2] * PxOf(i)[1] = -(o[1] * U * PxOf(i)[2])
                                   ELSE back[i].s[k] * o[2] = -(o[1] * U)
            /\ Mul(FromCode(back[i].R), FromCode(cs.rin[i].M)) = Id

C03_Identity ==
    /\ pc \in {"exported", "reimported"} =>
         \A i \in 1..Len(rel) :
            /\ rel[i].tomo = Live[i].tomo /\ rel[i].cls = Live[i].cls /\ rel[i].sid = Live[i].sid
            /\ cs.fmt.named => /\ ParseTomo(rel[i].tomoName) = Live[i].tomo
                               /\ ParseSid(cs.v, rel[i].partName) = Live[i].sid
    /\ pc = "imported" =>
         \A i \in 1..Len(back) :
            /\ back[i].tomo = cs.rin[i].tomo /\ back[i].cls = cs.rin[i].cls /\ back[i].geom3 = cs.rin[i].sid
            /\ cs.fmt.named => /\ ParseTomo(TomoName(cs.fmt, cs.rin[i].tomo)) = cs.rin[i].tomo
                               /\ ParseSid(cs.v, PartName(cs.fmt, cs.rin[i].tomo, cs.rin[i].sid)) = cs.rin[i].sid

C03_HalfSets ==
    pc \in {"exported", "reimported"} => \A i \in 1..Len(rel) : (rel[i].subset = 1) <=> (Live[i].sid % 2 = 1)

C03_RoundTrip ==
    pc = "reimported" =>
        \A i \in 1..Len(back) :
            /\ back[i].x = Complete(Live[i]) /\ back[i].s = <<0, 0, 0>>
            /\ FromCode(back[i].R) = Rot(Live[i])
            /\ back[i].tomo = Live[i].tomo /\ back[i].cls = Live[i].cls /\ back[i].geom3 = Live[i].sid

\* export with the original entries: row j carries the names AND the pose of one and the same particle
C03_OriginalEntries ==
    pc \in {"oexported", "oreimported"} =>
        /\ Len(rel) = Len(live)
        /\ \A j \in 1..Len(live) :
              LET r == cs.rin[live[j]]
                  pos == [k \in 1..3 |-> r.coord[k] + ShiftOf(r.origin[k], cs.v, PxOf(live[j]))]
              IN  /\ rel[j].tomo = r.tomo /\ rel[j].sid = r.sid /\ rel[j].subset = r.subset /\ rel[j].cls = r.cls
                  /\ cs.fmt.named => ParseTomo(rel[j].tomoName) = r.tomo /\ ParseSid(cs.v, rel[j].partName) = r.sid
                  /\ rel[j].coord = pos /\ \A k \in 1..3 : rel[j].origin[k][1] = 0
                  /\ rel[j].M = r.M
                  /\ pc = "oreimported" =>
                        /\ back[j].x = pos /\ back[j].s = <<0, 0, 0>> /\ Mul(FromCode(back[j].R), FromCode(r.M)) = Id
                        /\ back[j].tomo = r.tomo /\ back[j].cls = r.cls /\ back[j].geom3 = r.sid

-----------------------------------------------------------------------------
EmitTR == \/ EmitMode # "tr"
          \/ PrintT(<<"TR", ToJson([cid |-> cid, cs |-> IF cid = 0 THEN cs ELSE <<>>, op |-> op',
                                    rel |-> IF op' \in {"export", "exportorig"} THEN rel' ELSE <<>>,
                                    live |-> live',
                                    innames |-> IF op' \in {"import", "exportorig", "reimportorig"} /\ cs.fmt.named
                                                THEN [i \in 1..Len(cs.rin) |-> <<TomoName(cs.fmt, cs.rin[i].tomo),
                                                                                 PartName(cs.fmt, cs.rin[i].tomo, cs.rin[i].sid)>>]
                                                ELSE <<>>,
                                    back |-> IF op' \in {"import", "reimport", "reimportorig"} THEN back' ELSE <<>>])>>)
=============================================================================

---------------------------- MODULE MC_TiltMeta ----------------------------
(* Model-checking configurations of TiltMeta.tla: small mdoc documents (1..4 images) whose values cover every token
   class - digits with and without leading zeros, decimals with trailing zeros / without integer part / without
   fraction, negative numbers, free text - in the header, in ordinary columns and in the TiltAngle column; plus the
   small inputs of the loader / wedge-list laws. *)
EXTENDS TiltMeta

D(s) == s          \* digits as a sequence, e.g. <<2, 5, 0>>

\* tilt angles as they may be spelled in a file (pairwise different values inside one document)
TiltA == Neg(Dec(50, <<0, 0, 6, 6>>, FALSE))       \* -50.0066
TiltB == Dig(10, 0)                                \* 10
TiltC == Dec(0, <<0>>, FALSE)                      \* 0.0
TiltD == Neg(Dig(3, 0))                            \* -3
TiltE == Dec(30, <<5, 0>>, FALSE)                  \* 30.50
TiltF == Dec(0, <<5>>, TRUE)                       \* .5
TiltG == Dig(7, 2)                                 \* 007
TiltH == Dec(60, <<>>, FALSE)                      \* 60.

\* ordinary cell values
CellPool == << Dec(2, <<2, 5, 0, 0, 2>>, FALSE),   \* 2.25002
               Dig(64000, 0), Dig(0, 0), Dig(5, 1),                       \* 64000, 0, 05
               Txt(1), Txt(2), Txt(3), Txt(4),                            \* free text (see the driver's table)
               Neg(Dig(3, 0)), Neg(Dec(3, <<5>>, FALSE)),                 \* -3, -3.5  (stay text)
               Dec(300, <<0, 0>>, FALSE), Dec(0, <<0, 0, 1>>, FALSE),     \* 300.00, 0.001
               Dec(123456, <<>>, FALSE) >>                                \* 123456.

Cols == << "TiltAngle", "Defocus", "Magnification", "ImageShift", "TargetDefocus", "SubFramePath" >>

Hdr1 == << <<"PixelSpacing", Dec(1, <<9, 7, 1>>, FALSE)>>, <<"Voltage", Dig(300, 0)>>, <<"Version", Txt(5)>>,
           <<"ImageSize", Txt(6)>>, <<"DataMode", Dig(1, 0)>> >>
Hdr2 == << <<"PixelSpacing", Dec(2, <<6, 2, 0>>, FALSE)>>, <<"Offset", Neg(Dig(12, 0))>>, <<"Pad", Dig(7, 2)>>,
           <<"Scale", Dec(0, <<5>>, TRUE)>> >>

Sec(z, tilt, k) == [z |-> Dig(z, 0),
                    kv |-> [j \in DOMAIN Cols |-> IF j = 1 THEN <<Cols[1], tilt>>
                                                   ELSE <<Cols[j], CellPool[((k * 5 + j * 3) % Len(CellPool)) + 1]>>]]

Doc(hdr, titles, tilts, zs) == [hdr |-> hdr, titles |-> titles,
                                secs |-> [k \in DOMAIN tilts |-> Sec(zs[k], tilts[k], k)]]

QuickDocs == {
    Doc(Hdr1, <<1, 2>>, <<TiltB, TiltA, TiltC>>, <<0, 1, 2>>),
    Doc(Hdr2, <<>>, <<TiltF, TiltG, TiltH, TiltD>>, <<3, 2, 1, 0>>),
    Doc(Hdr2, <<2, 3>>, <<TiltE>>, <<5>>) }

MCDocs == QuickDocs \cup {
    Doc(Hdr1, <<1>>, <<TiltC, TiltD, TiltE, TiltA>>, <<0, 1, 2, 3>>),
    Doc(Hdr1, <<3>>, <<TiltH, TiltB>>, <<10, 4>>),
    Doc(Hdr2, <<1, 2, 3>>, <<TiltA, TiltD, TiltC, TiltF>>, <<0, 1, 2, 3>>) }

-----------------------------------------------------------------------------
(* loader / wedge-list laws on a small scope: every choice of 1..2 tomograms with 1..3 tilts from a pool *)
TiltPool == { <<-5200, -100, 4850>>, <<300, -300>>, <<0>>, <<1225, 1200, -6000>> }
Tomo(id, tl, withCtf, withDose, dim, zs) ==
    [id |-> id, tilts |-> tl,
     ctf |-> IF withCtf THEN [i \in DOMAIN tl |-> [u |-> 350000 + 7 * i, v |-> 340000 + id, ang |-> 2126, ps |-> 0]] ELSE <<>>,
     dose |-> IF withDose THEN [i \in DOMAIN tl |-> 30 * i + id] ELSE <<>>, dim |-> dim, zshift |-> zs]
Consts == [px |-> 2400, voltage |-> 300, amp |-> 7, cs |-> 27]
TomoLists == { << Tomo(17, a, c, dz, <<4096, 4096, 1500>>, 0) >> : a \in TiltPool, c \in BOOLEAN, dz \in BOOLEAN }
             \cup { << Tomo(17, a, c, c, <<4096, 4096, 1500>>, -25), Tomo(18, b, c, c, <<3708, 3838, 1200>>, 40) >> :
                      a \in TiltPool, b \in TiltPool, c \in BOOLEAN }

ASSUME C17_LawsOnSmallScope ==
    \A T \in TomoLists : C17_WedgeRows(T, Consts) /\ C17_WedgeEmMinMax(T) /\ C17_SgToEm(T, Consts)
ASSUME C17_LoadersIdentity ==
    /\ \A a \in TiltPool : /\ TltLoad(a, FALSE) = a
                           /\ RangeOf(TltLoad(a, TRUE)) = RangeOf(a) /\ Len(TltLoad(a, TRUE)) = Len(a)
                           /\ \A i, j \in DOMAIN a : i < j => TltLoad(a, TRUE)[i] <= TltLoad(a, TRUE)[j]
                           /\ DoseLoad(a) = a
    \* row by row whatever the number of rows (also when it equals the number of columns)
    /\ \A n \in 1..12 : LET rows == [k \in 1..n |-> [u |-> 300000 + k, v |-> 200000 + 3 * k, ang |-> k, ps |-> 0]]
                        IN  /\ Len(Defocus(rows)) = n
                            /\ \A k \in 1..n : Defocus(rows)[k] = [d1 |-> 300000 + k, d2 |-> 200000 + 3 * k,
                                                                   mean2 |-> 500000 + 4 * k, ast |-> k, ps |-> 0]
    /\ Defocus(<< [u |-> 352684, v |-> 350364, ang |-> 2126, ps |-> 0] >>)[1].mean2 = 703048
    /\ MdocDose(<< [tilt |-> 10, prior |-> 50, expo |-> 3], [tilt |-> -10, prior |-> 0, expo |-> 3] >>, TRUE) = <<3, 53>>
=============================================================================

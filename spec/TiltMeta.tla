------------------------------ MODULE TiltMeta ------------------------------
(***************************************************************************)
(* C17 - tilt-series metadata: the mdoc machine (cryocat.mdoc.Mdoc and the *)
(* module-level helpers), the tilt / dose / defocus loaders of ioutils and *)
(* the wedge-list builders of wedgeutils.                                  *)
(*                                                                         *)
(* TEXT LEVEL.  What stands right of "=" in an mdoc is a raw token:        *)
(*   [c |-> "dig", n, pad]        digits: n written with pad leading zeros *)
(*   [c |-> "dec", ip, fd, noip]  decimal: integer part ip (omitted when   *)
(*                                noip), ".", fraction digits fd (maybe    *)
(*                                empty, maybe with trailing zeros)        *)
(*   [c |-> "neg", b]             "-" followed by a dig / dec token        *)
(*   [c |-> "txt", id]            any other text (no "=", not numeric)     *)
(* VALUE LEVEL.  Format (Mdoc._format_value) turns a raw token into        *)
(*   [t |-> "int", n] | [t |-> "float", neg, ip, fd] | [t |-> "str", raw]  *)
(* (negative numbers stay text - except in the TiltAngle column, which is  *)
(* converted to float); Render is what "{}".format writes for a value.     *)
(* Floats are exact decimals here: the generated class has at most six     *)
(* fraction digits and no exponent form, so equal decimals <=> equal       *)
(* doubles and repr() prints the normalised decimal.                       *)
(*                                                                         *)
(* A document is  [hdr : Seq(<<key, raw>>), titles : Seq(title),           *)
(*                 secs : Seq([z : raw, kv : Seq(<<key, raw>>)])],         *)
(* an Mdoc object [hdr : Seq(<<key, val>>), titles, cols : Seq(key),       *)
(*                 imgs : Seq([lab, z, f : Seq(val), rm])]                 *)
(* (lab = the table's index label = position at reading time).             *)
(***************************************************************************)
EXTENDS Integers, Sequences, FiniteSets, TLC, Json

CONSTANTS Docs,        \* documents offered to the machine as initial files
          MaxDepth,    \* bound on the history length
          EmitMode     \* "none" | "hist"

VARIABLES m,           \* the live Mdoc object
          disk,        \* the last written / current file (a document)
          op,          \* the last operation
          d,           \* history length
          hist         \* the history (EmitMode = "hist")
vars == <<m, disk, op, d, hist>>

RangeOf(s) == { s[i] : i \in DOMAIN s }
TiltKey == "TiltAngle"

-----------------------------------------------------------------------------
(* values *)

\* strip trailing zeros of the fraction digits; an empty fraction is "0"
RECURSIVE Norm(_)
Norm(fd) == IF fd = <<>> THEN <<0>>
            ELSE IF fd[Len(fd)] = 0 /\ Len(fd) > 1 THEN Norm(SubSeq(fd, 1, Len(fd) - 1))
            ELSE IF fd = <<0>> THEN <<0>> ELSE fd

IntV(n) == [t |-> "int", n |-> n]
FloatV(neg, ip, fd) == [t |-> "float", neg |-> neg, ip |-> ip, fd |-> Norm(fd)]
StrV(raw) == [t |-> "str", raw |-> raw]

Dig(n, pad) == [c |-> "dig", n |-> n, pad |-> pad]
Dec(ip, fd, noip) == [c |-> "dec", ip |-> ip, fd |-> fd, noip |-> noip]
Neg(b) == [c |-> "neg", b |-> b]
Txt(id) == [c |-> "txt", id |-> id]

\* Mdoc._format_value: isdigit -> int; digits with one dot -> float; everything else stays text
Format(raw) == CASE raw.c = "dig" -> IntV(raw.n)
                 [] raw.c = "dec" -> FloatV(FALSE, raw.ip, raw.fd)
                 [] OTHER -> StrV(raw)

\* the TiltAngle column: astype(float)
ToFloat(v) == CASE v.t = "int" -> FloatV(FALSE, v.n, <<0>>)
                [] v.t = "float" -> v
                [] v.t = "str" /\ v.raw.c = "neg" /\ v.raw.b.c = "dig" -> FloatV(TRUE, v.raw.b.n, <<0>>)
                [] v.t = "str" /\ v.raw.c = "neg" /\ v.raw.b.c = "dec" -> FloatV(TRUE, v.raw.b.ip, v.raw.b.fd)

\* "{}".format(value)
Render(v) == CASE v.t = "int" -> Dig(v.n, 0)
               [] v.t = "float" -> IF v.neg THEN Neg(Dec(v.ip, v.fd, FALSE)) ELSE Dec(v.ip, v.fd, FALSE)
               [] v.t = "str" -> v.raw

\* numeric order of floats: value in millionths (at most six fraction digits)
Pow10(k) == CASE k = 0 -> 1 [] k = 1 -> 10 [] k = 2 -> 100 [] k = 3 -> 1000 [] k = 4 -> 10000 [] k = 5 -> 100000 [] k = 6 -> 1000000
RECURSIVE DigitsVal(_)
DigitsVal(fd) == IF fd = <<>> THEN 0 ELSE DigitsVal(SubSeq(fd, 1, Len(fd) - 1)) * 10 + fd[Len(fd)]
Micro(v) == LET a == v.ip * 1000000 + DigitsVal(v.fd) * Pow10(6 - Len(v.fd))
            IN  IF v.neg THEN -a ELSE a

-----------------------------------------------------------------------------
(* reading and writing *)

ColOf(cols, key) == CHOOSE j \in DOMAIN cols : cols[j] = key
CellVal(key, raw) == IF key = TiltKey THEN ToFloat(Format(raw)) ELSE Format(raw)

\* Mdoc(file): header entries formatted, columns taken from the first section, Removed = False, labels 0..
Read(doc) ==
    LET cols == [j \in DOMAIN doc.secs[1].kv |-> doc.secs[1].kv[j][1]]
    IN  [hdr |-> [k \in DOMAIN doc.hdr |-> <<doc.hdr[k][1], Format(doc.hdr[k][2])>>],
         titles |-> doc.titles,
         cols |-> cols,
         imgs |-> [k \in DOMAIN doc.secs |->
                     [lab |-> k - 1, z |-> doc.secs[k].z.n,
                      f |-> [j \in DOMAIN cols |-> CellVal(cols[j], doc.secs[k].kv[j][2])], rm |-> FALSE]]]

SelectSeq2(s, Keep(_)) == SelectSeq(s, Keep)
Kept(mm) == SelectSeq(mm.imgs, LAMBDA i : ~i.rm)

\* Mdoc.write(removed = inclRemoved)
WriteDoc(mm, inclRemoved) ==
    LET rows == IF inclRemoved THEN mm.imgs ELSE Kept(mm)
    IN  [hdr |-> [k \in DOMAIN mm.hdr |-> <<mm.hdr[k][1], Render(mm.hdr[k][2])>>],
         titles |-> mm.titles,
         secs |-> [k \in DOMAIN rows |->
                     [z |-> Dig(rows[k].z, 0),
                      kv |-> [j \in DOMAIN mm.cols |-> <<mm.cols[j], Render(rows[k].f[j])>>]]]]

-----------------------------------------------------------------------------
(* operations on the live object *)

TiltOf(mm, i) == Micro(i.f[ColOf(mm.cols, TiltKey)])

\* sort_values(by = "TiltAngle"): ascending; the property's inputs have pairwise different tilt angles
SortImgs(mm) ==
    LET n == Len(mm.imgs)
        tc == ColOf(mm.cols, TiltKey)
        \* (\o <<>> makes TLC build the tuples once instead of re-evaluating the lambda at every application)
        tl == [k \in 1..n |-> Micro(mm.imgs[k].f[tc])] \o <<>>
        rank == [k \in 1..n |-> 1 + Cardinality({ x \in 1..n : tl[x] < tl[k] })] \o <<>>
    IN  [p \in 1..n |-> mm.imgs[CHOOSE k \in 1..n : rank[k] = p]]

SortByTilt(mm, resetZ) ==
    LET s == SortImgs(mm)
    IN  [mm EXCEPT !.imgs = IF resetZ THEN [p \in DOMAIN s |-> [s[p] EXCEPT !.z = p - 1]] ELSE s]

DistinctTilts(mm) == \A a, b \in DOMAIN mm.imgs : a # b => TiltOf(mm, mm.imgs[a]) # TiltOf(mm, mm.imgs[b])

\* remove_images(indices, kept_only): indices are 0-based positions among the kept images (kept_only) or among all
\* images, in the current order
Candidates(mm, keptOnly) == IF keptOnly THEN { k \in DOMAIN mm.imgs : ~mm.imgs[k].rm } ELSE DOMAIN mm.imgs
RemoveImages(mm, P, keptOnly) ==
    LET C == Candidates(mm, keptOnly)
        hit == { k \in C : Cardinality({ x \in C : x < k }) \in P }       \* the p-th candidate, p = 0, 1, ...
    IN  [mm EXCEPT !.imgs = [k \in DOMAIN mm.imgs |-> IF k \in hit THEN [mm.imgs[k] EXCEPT !.rm = TRUE] ELSE mm.imgs[k]]]

\* keep_images(labels): by index label
KeepImages(mm, L) == [mm EXCEPT !.imgs = [k \in DOMAIN mm.imgs |->
                          IF mm.imgs[k].lab \in L THEN [mm.imgs[k] EXCEPT !.rm = FALSE] ELSE mm.imgs[k]]]
ResetImages(mm) == [mm EXCEPT !.imgs = [k \in DOMAIN mm.imgs |-> [mm.imgs[k] EXCEPT !.rm = FALSE]]]

\* what re-reading a written file must give: the written rows, unflagged, labelled 0.. in file order
Relabel(rows) == [k \in DOMAIN rows |-> [rows[k] EXCEPT !.lab = k - 1, !.rm = FALSE]]
KeptView(mm) == [mm EXCEPT !.imgs = Relabel(Kept(mm))]
AllView(mm) == [mm EXCEPT !.imgs = Relabel(mm.imgs)]

-----------------------------------------------------------------------------
(* the machine *)

\* JSON projections for the driver
ValJ(v) == v
MdocJ(mm) == [hdr |-> mm.hdr, titles |-> mm.titles, cols |-> mm.cols,
              imgs |-> [k \in DOMAIN mm.imgs |-> [lab |-> mm.imgs[k].lab, z |-> mm.imgs[k].z, f |-> mm.imgs[k].f,
                                                  rm |-> mm.imgs[k].rm]]]

\* the effect of one operation on (object, file) - used by the machine below and by TiltMetaTrace.tla
Apply(mm, dk, o) ==
    CASE o.name = "sort"      -> [m |-> SortByTilt(mm, o.reset), disk |-> dk]
      [] o.name = "remove"    -> [m |-> RemoveImages(mm, o.idx, o.kept_only), disk |-> dk]
      [] o.name = "keep"      -> [m |-> KeepImages(mm, o.labels), disk |-> dk]
      [] o.name = "reset"     -> [m |-> ResetImages(mm), disk |-> dk]
      [] o.name = "write"     -> [m |-> mm, disk |-> WriteDoc(mm, o.removed)]
      [] o.name = "reload"    -> [m |-> Read(dk), disk |-> dk]
      \* module-level helpers working from file to file: mdoc.remove_images / mdoc.sort_mdoc_by_tilt_angles
      [] o.name = "fn_remove" -> LET r == RemoveImages(Read(dk), { p - o.base : p \in o.idx }, TRUE)
                                 IN  [m |-> r, disk |-> WriteDoc(r, FALSE)]
      [] o.name = "fn_sort"   -> LET r == SortByTilt(Read(dk), o.reset)
                                 IN  [m |-> r, disk |-> WriteDoc(r, FALSE)]
      \* mdoc.remove_images without output_file: the flagged object is returned, the input file stays what it is
      [] o.name = "fn_remove_keep" -> [m |-> RemoveImages(Read(dk), { p - o.base : p \in o.idx }, TRUE), disk |-> dk]

NKept(mm) == Cardinality(Candidates(mm, TRUE))

\* when an operation is inside the property's quantifier
Enabled(mm, dk, o) ==
    CASE o.name = "sort"      -> DistinctTilts(mm)
      [] o.name = "remove"    -> o.idx # {} /\ \A p \in o.idx : p >= 0 /\ p < Cardinality(Candidates(mm, o.kept_only))
      [] o.name = "keep"      -> o.labels # {} /\ o.labels \subseteq { mm.imgs[k].lab : k \in DOMAIN mm.imgs }
      [] o.name = "reset"     -> TRUE
      \* a file without sections cannot be read back, so at least one image must be written
      [] o.name = "write"     -> o.removed \/ NKept(mm) >= 1
      [] o.name = "reload"    -> TRUE
      [] o.name = "fn_remove" -> /\ o.idx # {} /\ \A p \in o.idx : p - o.base >= 0 /\ p - o.base < Len(dk.secs)
                                 /\ Cardinality(o.idx) < Len(dk.secs)
      [] o.name = "fn_sort"   -> DistinctTilts(Read(dk))
      [] o.name = "fn_remove_keep" -> o.idx # {} /\ \A p \in o.idx : p - o.base >= 0 /\ p - o.base < Len(dk.secs)

StepOp(o) == /\ Enabled(m, disk, o)
             /\ LET r == Apply(m, disk, o)
                IN  /\ m' = r.m
                    /\ disk' = r.disk
                    /\ op' = o
                    /\ d' = d + 1
                    /\ hist' = IF EmitMode = "hist" THEN Append(hist, [op |-> o, post |-> MdocJ(r.m), disk |-> r.disk]) ELSE hist

Init == /\ disk \in Docs
        /\ m = Read(disk)
        /\ op = [name |-> "read"]
        /\ d = 0
        /\ hist = IF EmitMode = "hist" THEN << [op |-> [name |-> "read"], post |-> MdocJ(Read(disk)), disk |-> disk] >> ELSE <<>>

DoSort(resetZ) == StepOp([name |-> "sort", reset |-> resetZ])
DoRemove(P, keptOnly) == StepOp([name |-> "remove", idx |-> P, kept_only |-> keptOnly])
DoKeep(L) == StepOp([name |-> "keep", labels |-> L])
DoReset == StepOp([name |-> "reset"])
DoWrite(inclRemoved) == StepOp([name |-> "write", removed |-> inclRemoved])
DoReload == StepOp([name |-> "reload"])
DoFnRemove(P, base) == StepOp([name |-> "fn_remove", idx |-> { p + base : p \in P }, base |-> base])
DoFnSort(resetZ) == StepOp([name |-> "fn_sort", reset |-> resetZ])
DoFnRemoveKeep(P, base) == StepOp([name |-> "fn_remove_keep", idx |-> { p + base : p \in P }, base |-> base])

Positions == 0..3
Next == /\ d < MaxDepth
        /\ \/ \E b \in BOOLEAN : DoSort(b)
           \/ \E P \in SUBSET Positions, b \in BOOLEAN : DoRemove(P, b)
           \/ \E L \in SUBSET Positions : DoKeep(L)
           \/ DoReset
           \/ \E b \in BOOLEAN : DoWrite(b)
           \/ DoReload
           \/ \E P \in SUBSET Positions, base \in {0, 1} : DoFnRemove(P, base)
           \/ \E b \in BOOLEAN : DoFnSort(b)
           \/ \E P \in SUBSET Positions : DoFnRemoveKeep(P, 1)

Spec == Init /\ [][Next]_vars

-----------------------------------------------------------------------------
(* clauses *)

\* value level: what is written is read back as the same value (also in the TiltAngle column)
RoundTripsVal(v) == Format(Render(v)) = v \/ (v.t = "float" /\ ToFloat(Format(Render(v))) = v)

\* an mdoc written by cryoCAT re-reads to the same header entries and the same per-image table
C17_MdocRoundTrip ==
    [][op'.name = "write" =>
          Read(disk') = IF op'.removed THEN AllView(m) ELSE KeptView(m)]_vars

\* sorting changes only the order (and the ZValue when asked): same rows, ascending tilt
C17_SortOnlyReorders ==
    [][op'.name = "sort" =>
          /\ m'.hdr = m.hdr /\ m'.titles = m.titles /\ m'.cols = m.cols
          /\ Len(m'.imgs) = Len(m.imgs)
          /\ \A k \in DOMAIN m.imgs : \E p \in DOMAIN m'.imgs :
                IF op'.reset THEN m'.imgs[p] = [m.imgs[k] EXCEPT !.z = p - 1] ELSE m'.imgs[p] = m.imgs[k]
          /\ \A p, q \in DOMAIN m'.imgs : p < q => TiltOf(m', m'.imgs[p]) < TiltOf(m', m'.imgs[q])]_vars

\* removing changes only the removed flag, of exactly the addressed images
C17_RemoveOnlyFlags ==
    [][op'.name = "remove" =>
          /\ m'.hdr = m.hdr /\ m'.titles = m.titles /\ m'.cols = m.cols
          /\ Len(m'.imgs) = Len(m.imgs)
          /\ \A k \in DOMAIN m.imgs : [m'.imgs[k] EXCEPT !.rm = FALSE] = [m.imgs[k] EXCEPT !.rm = FALSE]
          /\ LET C == Candidates(m, op'.kept_only)
             IN  \A k \in DOMAIN m.imgs :
                   m'.imgs[k].rm = (m.imgs[k].rm \/ (k \in C /\ Cardinality({ x \in C : x < k }) \in op'.idx))]_vars

\* the written file omits exactly the removed images (and nothing else), in table order
C17_WriteOmitsExactlyRemoved ==
    [][(op'.name = "write" /\ ~op'.removed) =>
          LET K == Kept(m)
          IN  /\ Len(disk'.secs) = Len(K)
              /\ \A k \in DOMAIN K : disk'.secs[k].z.n = K[k].z
              /\ m' = m]_vars

TypeOK == /\ d \in 0..MaxDepth
          /\ \A k \in DOMAIN m.imgs : Len(m.imgs[k].f) = Len(m.cols)

\* every value the machine holds survives writing and reading
C17_ValuesRoundTrip ==
    /\ \A k \in DOMAIN m.hdr : Format(Render(m.hdr[k][2])) = m.hdr[k][2]
    /\ \A k \in DOMAIN m.imgs : \A j \in DOMAIN m.cols :
          CellVal(m.cols[j], Render(m.imgs[k].f[j])) = m.imgs[k].f[j]

EmitHist == (d < MaxDepth) \/ PrintT(ToJson([hist |-> hist]))

-----------------------------------------------------------------------------
(* loaders and wedge lists (constant level).  Numbers are scaled integers. *)

\* tlt_load: the numbers of the file, ascending when sort is asked
RECURSIVE InsertSorted(_, _)
InsertSorted(s, x) == IF s = <<>> THEN <<x>>
                      ELSE IF x < s[1] THEN <<x>> \o s ELSE <<s[1]>> \o InsertSorted(Tail(s), x)
RECURSIVE SortAsc(_)
SortAsc(s) == IF s = <<>> THEN <<>> ELSE InsertSorted(SortAsc(Tail(s)), s[1])

TltLoad(vals, sort) == IF sort THEN SortAsc(vals) ELSE vals
DoseLoad(vals) == vals
\* mdoc dose: PriorRecordDose + ExposureDose per image, images in ascending tilt order (sort_mdoc = True)
MdocDose(imgs, sort) ==       \* imgs : Seq([tilt, prior, expo])
    LET n == Len(imgs)
        pos(k) == 1 + Cardinality({ x \in 1..n : imgs[x].tilt < imgs[k].tilt })
        ordered == IF sort THEN [p \in 1..n |-> imgs[CHOOSE k \in 1..n : pos(k) = p]] ELSE imgs
    IN  [p \in 1..n |-> ordered[p].prior + ordered[p].expo]

\* defocus files: rows [u, v, ang, ps] with u, v in Angstrom (scaled); result in micrometre = Angstrom / 10^4:
\* d1, d2 in the same scaled units of 1e-4, twice the mean = u + v
Defocus(rows) == [k \in DOMAIN rows |-> [d1 |-> rows[k].u, d2 |-> rows[k].v, mean2 |-> rows[k].u + rows[k].v,
                                         ast |-> rows[k].ang, ps |-> rows[k].ps]]

\* STOPGAP wedge list: for every tomogram in order, one row per tilt pairing the i-th tilt, defocus, exposure
\* T : Seq([id, tilts, ctf (defocus rows or <<>>), dose (sequence or <<>>), dim, zshift]); consts = [px, voltage, amp, cs]
RECURSIVE Concat(_)
Concat(ss) == IF ss = <<>> THEN <<>> ELSE ss[1] \o Concat(Tail(ss))
WedgeRowsOf(t, consts) ==
    LET \* a tilt FILE is loaded ascending; a tilt ARRAY is taken as it is (field asis), whatever its order
        tl == IF "asis" \in DOMAIN t /\ t.asis THEN t.tilts ELSE TltLoad(t.tilts, TRUE)
        df == Defocus(t.ctf)
    IN  [i \in DOMAIN tl |-> [tomo |-> t.id, px |-> consts.px, dim |-> t.dim, zshift |-> t.zshift, tilt |-> tl[i],
                              mean2 |-> IF t.ctf = <<>> THEN -1 ELSE df[i].mean2,
                              dose |-> IF t.dose = <<>> THEN -1 ELSE t.dose[i],
                              voltage |-> consts.voltage, amp |-> consts.amp, cs |-> consts.cs]]
WedgeSg(T, consts) == Concat([k \in DOMAIN T |-> WedgeRowsOf(T[k], consts)])

MinOf(s) == CHOOSE x \in RangeOf(s) : \A y \in RangeOf(s) : x <= y
MaxOfS(s) == CHOOSE x \in RangeOf(s) : \A y \in RangeOf(s) : x >= y
WedgeEm(T) == [k \in DOMAIN T |-> [tomo |-> T[k].id, lo |-> MinOf(T[k].tilts), hi |-> MaxOfS(T[k].tilts)]]

\* wedge_list_sg_to_em: one row per tomogram number (ascending), min and max of its tilt column
SgToEm(rows) ==
    LET ids == { rows[k].tomo : k \in DOMAIN rows }
        ofT(t) == { rows[k].tilt : k \in { x \in DOMAIN rows : rows[x].tomo = t } }
        sorted == SortAsc(CHOOSE s \in [1..Cardinality(ids) -> ids] : \A a, b \in DOMAIN s : a # b => s[a] # s[b])
    IN  [k \in DOMAIN sorted |-> [tomo |-> sorted[k],
                                  lo |-> CHOOSE x \in ofT(sorted[k]) : \A y \in ofT(sorted[k]) : x <= y,
                                  hi |-> CHOOSE x \in ofT(sorted[k]) : \A y \in ofT(sorted[k]) : x >= y]]

\* laws
C17_WedgeRows(T, consts) ==
    LET W == WedgeSg(T, consts)
    IN  /\ Len(W) = Len(Concat([k \in DOMAIN T |-> T[k].tilts]))
        /\ \A k \in DOMAIN T : \A i \in DOMAIN T[k].tilts :
              \E r \in DOMAIN W : /\ W[r].tomo = T[k].id /\ W[r].tilt = TltLoad(T[k].tilts, TRUE)[i]
                                  /\ W[r].dim = T[k].dim /\ W[r].zshift = T[k].zshift
C17_WedgeEmMinMax(T) == \A k \in DOMAIN T : \A x \in RangeOf(T[k].tilts) : WedgeEm(T)[k].lo <= x /\ x <= WedgeEm(T)[k].hi
C17_SgToEm(T, consts) ==
    (\A a, b \in DOMAIN T : a < b => T[a].id < T[b].id) => SgToEm(WedgeSg(T, consts)) = WedgeEm(T)
=============================================================================

----------------------------- MODULE RelionCases -----------------------------
(* RelionConv.tla on cases drawn by the driver (seeded; lists of up to 300 particles / RELION rows on the exact
   domain).  For import cases the rotation M of a row is computed here from its ZYZ quarter-turn triple e. *)
EXTENDS RelionConv, IOUtils

Cases == ndJsonDeserialize(IOEnv.CASE_FILE)

WithM(r) == [coord |-> r.coord, origin |-> r.origin, M |-> Code(FromZYZi(r.e[1], r.e[2], r.e[3])), e |-> r.e,
             tomo |-> r.tomo, sid |-> r.sid, subset |-> r.subset, cls |-> r.cls]

CaseInit == /\ cid \in 1..Len(Cases)
            /\ LET c == Cases[cid]
               IN  cs = IF c.mode = "import" /\ "pxs" \in DOMAIN c
                        THEN [mode |-> "import", v |-> c.v, px |-> c.px, pxs |-> c.pxs, fmt |-> c.fmt,
                              rin |-> [i \in 1..Len(c.rin) |-> WithM(c.rin[i])]]
                        ELSE IF c.mode = "import"
                        THEN [mode |-> "import", v |-> c.v, px |-> c.px, fmt |-> c.fmt, rin |-> [i \in 1..Len(c.rin) |-> WithM(c.rin[i])]]
                        ELSE IF c.mode = "orig"
                        THEN [mode |-> "orig", v |-> c.v, px |-> c.px, fmt |-> c.fmt, rin |-> [i \in 1..Len(c.rin) |-> WithM(c.rin[i])],
                              hist |-> c.hist]
                        ELSE [mode |-> "export", v |-> c.v, px |-> c.px, fmt |-> c.fmt, parts |-> c.parts, hist |-> c.hist]
            /\ rel = <<>> /\ back = <<>> /\ pc = "start" /\ op = "init" /\ live = <<>>
=============================================================================

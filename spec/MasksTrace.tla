----------------------------- MODULE MasksTrace -----------------------------
(***************************************************************************)
(* C13, code -> spec.  The driver builds masks with cryomask in boxes up   *)
(* to 48 per axis (arbitrary centres, radii up to beyond the box) and      *)
(* records, per mask, a loss-free projection of the returned array:        *)
(*   dims    the array shape                                                *)
(*   runs    for every column (i, j) (index i*n2 + j + 1) the list of      *)
(*           maximal k-intervals <<lo, hi>> on which the voxel value is 1  *)
(*           (hard masks) resp. >= 1 - CoreTol/1e6 (soft masks)            *)
(*   binary  all values are exactly 0 or 1                                 *)
(*   vmin, vmax   extreme values x 1e6 (clamped to +-2e6)                  *)
(* This module re-decides EVERY voxel of the box with the integer          *)
(* membership predicates of MaskShapes (In / Undecided) and compares with  *)
(* the runs.  Soft masks: range [0, 1] and, when blurred outwards, every   *)
(* voxel of the requested core lies in a logged run.  Algebra on soft      *)
(* masks: range and input immutability.  Many traces per TLC run: the      *)
(* initial states are the trace ids, one Judge step each.                  *)
(***************************************************************************)
EXTENDS MaskShapes, Json, IOUtils

CONSTANTS CoreTol      \* 1000 = 1e-3 on the x1e6 scale (the driver logs the threshold it used; it must agree)

Traces == ndJsonDeserialize(IOEnv.TRACE_FILE)

VARIABLES tid, verdict
vars == <<tid, verdict>>

InRuns(k, rs) == \E x \in DOMAIN rs : rs[x][1] <= k /\ k <= rs[x][2]
Col(n, runs, v) == runs[v[1] * n[2] + v[2] + 1]

\* voxels on which the logged array and the analytic inequality disagree (hard masks)
Mismatch(q, runs) == {v \in Box(q.n) : ~Undecided(q, v) /\ (InRuns(v[3], Col(q.n, runs, v)) # In(q, v))}
\* core voxels that are not at 1 within the tolerance (soft masks blurred outwards)
CoreLeak(q, runs) == {v \in Box(q.n) : In(q, v) /\ ~InRuns(v[3], Col(q.n, runs, v))}

ClauseOfShape(s) == CASE s = "sphere" -> "C13_SphereIsDistanceLeqR"
                      [] s = "cyl"    -> "C13_CylinderIsDiscTimesSlab"
                      [] s = "ell"    -> "C13_EllipsoidIsNormalisedSumLeq1"
                      [] s = "sshell" -> "C13_SphereShellIsOuterMinusInner"
                      [] s = "eshell" -> "C13_EllipsoidShellIsOuterMinusInner"

NoWitness == <<>>
Pick(S) == CHOOSE v \in S : TRUE

Judge(t) ==
    IF t.kind = "hard" THEN
        IF ~WellFormed(t.req) THEN [ok |-> FALSE, clause |-> "malformed_request", witness |-> NoWitness]
        ELSE IF t.dims # t.req.n \/ Len(t.runs) # t.req.n[1] * t.req.n[2]
             THEN [ok |-> FALSE, clause |-> "C13_InsideBox", witness |-> NoWitness]
        ELSE IF ~t.binary THEN [ok |-> FALSE, clause |-> "C13_BinaryValues", witness |-> NoWitness]
        ELSE LET bad == Mismatch(t.req, t.runs)
             IN  IF bad = {} THEN [ok |-> TRUE, clause |-> "none", witness |-> NoWitness]
                 ELSE [ok |-> FALSE, clause |-> ClauseOfShape(t.req.shape), witness |-> Pick(bad)]
    ELSE IF t.kind = "soft" THEN
        IF ~WellFormed(t.req) \/ t.thr # 1000000 - CoreTol
            THEN [ok |-> FALSE, clause |-> "malformed_request", witness |-> NoWitness]
        ELSE IF t.dims # t.req.n \/ Len(t.runs) # t.req.n[1] * t.req.n[2]
             THEN [ok |-> FALSE, clause |-> "C13_InsideBox", witness |-> NoWitness]
        ELSE IF t.vmin < 0 \/ t.vmax > 1000000 THEN [ok |-> FALSE, clause |-> "C13_SoftRange", witness |-> NoWitness]
        ELSE IF ~t.outwards THEN [ok |-> TRUE, clause |-> "none", witness |-> NoWitness]
        ELSE LET bad == CoreLeak(t.req, t.runs)
             IN  IF bad = {} THEN [ok |-> TRUE, clause |-> "none", witness |-> NoWitness]
                 ELSE [ok |-> FALSE, clause |-> "C13_SoftCoreStaysOne", witness |-> Pick(bad)]
    ELSE \* "softalg": union / intersection / subtraction / difference of 1..5 soft masks
        IF t.mutated THEN [ok |-> FALSE, clause |-> "C13_InputsUntouched", witness |-> NoWitness]
        ELSE IF t.vmin < 0 \/ t.vmax > 1000000 THEN [ok |-> FALSE, clause |-> "C13_AlgebraRange", witness |-> NoWitness]
        ELSE [ok |-> TRUE, clause |-> "none", witness |-> NoWitness]

TraceInit == tid \in 1 .. Len(Traces) /\ verdict = [ok |-> TRUE, clause |-> "pending", witness |-> NoWitness]
TraceNext == /\ verdict.clause = "pending"
             /\ verdict' = Judge(Traces[tid])
             /\ UNCHANGED tid
TraceSpec == TraceInit /\ [][TraceNext]_vars

Report == \/ verdict.clause = "pending"
          \/ PrintT(<<"VERDICT", ToJson([tid |-> tid, ok |-> verdict.ok, clause |-> verdict.clause, witness |-> verdict.witness])>>)
=============================================================================

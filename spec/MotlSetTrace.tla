--------------------------- MODULE MotlSetTrace ---------------------------
(***************************************************************************)
(* C08, code -> spec.  One record per call observed on a live Motl:        *)
(*   [id, op, a0, b0 (tables before the call), a, b (tables after it),     *)
(*    uniq, featsid (what get_unique_values / get_feature answer on the   *)
(*    live object right after the call),                                  *)
(*    argchg (what the call did to its own arguments: value list, second   *)
(*    list, list of inputs and its members, self for calls that return a   *)
(*    new list; "" = nothing), earlier (what it did to results of earlier  *)
(*    calls of the history; "" = nothing),                                 *)
(*    cols (column names of every returned table), parts (split only)]     *)
(* tables are arrays of [sid, tomo, obj, score, cls, tag] as projected by  *)
(* the driver (tag 0 = the 15 other fields are no longer those of any tag, *)
(* -1 = a key value that is not an integer / not a score token).           *)
(* The verdict of a record is the first clause of MotlSetOps section 2 the *)
(* observed result breaks.  All records are judged in one TLC run.         *)
(***************************************************************************)
EXTENDS MotlSetOps, Json, IOUtils

Traces == ndJsonDeserialize(IOEnv.TRACE_FILE)

VARIABLES tid, done
vars == <<tid, done>>

Tbl(x) == [i \in DOMAIN x |-> [sid |-> x[i][1], tomo |-> x[i][2], obj |-> x[i][3], score |-> x[i][4],
                                cls |-> x[i][5], tag |-> x[i][6]]]

Touched(n) == CASE n = "renumber_particles" -> {"sid"}
                [] n = "renumber_objects" -> {"obj"}
                [] n = "merge_renumber" -> {"sid", "obj"}
                [] n = "merge_dropdup" -> {"obj"}
                [] OTHER -> {}

\* the inputs of a merge call, in call order ("a2" / "b2": re-tagged copies the harness built, logged with the call)
In(t, nm) == CASE nm = "a" -> Tbl(t.a0) [] nm = "b" -> Tbl(t.b0) [] nm = "a2" -> Tbl(t.op.a2) [] nm = "b2" -> Tbl(t.op.b2)
Ins(t) == [k \in DOMAIN t.op.order |-> In(t, t.op.order[k])]
IsMerge(t) == t.op.name \in {"merge_renumber", "merge_dropdup"}
PoolOf(t) == Range(Tbl(t.a0)) \cup Range(Tbl(t.b0)) \cup
             (IF IsMerge(t) THEN Range(Tbl(t.op.a2)) \cup Range(Tbl(t.op.b2)) ELSE {})

QueryFields == <<"sid", "tomo", "obj", "cls", "score">>

Specific(t, T, Bt, P) ==
    LET n == t.op.name IN
    CASE n = "subset" -> IF SubsetExact(T, t.op.f, t.op.vals, P) THEN "none" ELSE "C08_SubsetExact"
      [] n = "remove" -> IF RemoveComplementsSubset(T, t.op.f, t.op.vals, P) THEN "none" ELSE "C08_RemoveComplementsSubset"
      [] n = "split" -> IF /\ SplitPartitions(T, t.op.f, [k \in DOMAIN t.parts |-> Tbl(t.parts[k])])
                           /\ t.op.k \in DOMAIN t.parts
                           /\ P = Tbl(t.parts[t.op.k])
                        THEN "none" ELSE "C08_SplitPartitions"
      [] n = "intersect" -> IF IntersectionExactBy(T, Bt, t.op.f, P) THEN "none" ELSE "C08_IntersectionExact"
      [] n = "dropdup" -> IF DropDupOneBest(T, t.op.f, t.op.asc, P) THEN "none" ELSE "C08_DropDupOneBest"
      [] n = "merge_renumber" -> IF MergeNumbers(Ins(t), P) THEN "none" ELSE "C08_MergeNumbers"
      [] n = "merge_dropdup" -> IF MergeDropDupOneBest(Ins(t), P) THEN "none" ELSE "C08_MergeDropDupOneBest"
      [] n = "renumber_particles" -> IF ParticlesRenumbered(T, P) THEN "none" ELSE "C08_ParticlesRenumbered"
      [] n = "renumber_objects" -> IF ObjectsSequential(T, t.op.start, P) THEN "none" ELSE "C08_ObjectsSequential"

Failing(t) ==
    LET T == Tbl(t.a0)
        Bt == Tbl(t.b0)
        P == Tbl(t.a)
        Q == Tbl(t.b)
    IN  \* frame conditions of the call, observed by the driver's argument guard (mbt/argguard.py): "" = nothing changed
        IF t.argchg # "" THEN "C08_ArgumentsUntouched"
        ELSE IF t.earlier # "" THEN "C08_EarlierResultsUntouched"
        ELSE IF \E k \in DOMAIN t.cols : ~Schema(t.cols[k]) THEN "C08_Schema"
        ELSE IF ~TagsIntact(PoolOf(t), Touched(t.op.name), P) \/ Q # Bt THEN "C08_TagsIntact"
        ELSE IF Specific(t, T, Bt, P) # "none" THEN Specific(t, T, Bt, P)
        \* the read-only queries made on the live object right after the call describe the CURRENT table:
        \* t.uniq[m] = get_unique_values of column m (sid, tomo, obj, cls, score), t.featsid = get_feature("subtomo_id")
        ELSE IF \E m \in 1..5 : t.uniq[m] # DistinctSeq(P, QueryFields[m]) THEN "C08_QueriesCurrent"
        ELSE IF t.featsid # [k \in DOMAIN P |-> P[k].sid] THEN "C08_QueriesCurrent"
        ELSE "none"

TraceInit == tid \in 1..Len(Traces) /\ done = FALSE
TraceNext == ~done /\ done' = TRUE /\ UNCHANGED tid
TraceSpec == TraceInit /\ [][TraceNext]_vars

Report == \/ ~done
          \/ LET c == Failing(Traces[tid])
             IN  PrintT(<<"VERDICT", ToJson([tid |-> tid, id |-> Traces[tid].id, ok |-> (c = "none"), clause |-> c])>>)
=============================================================================
